"""C34 — test configuration is read from exactly the leading comment block (structural clauses)."""
import re

from lib import mir, synq
from .rtcommon import bool_switches_on_call, discr_switches, variant_target, every_return_passes

CONFIG = "crates/test/src/config.rs"
LIB = "crates/test/src/lib.rs"

CLAIM = dict(
    level="other", engine="mirfacts+synfacts", design="DESIGN.md §5 C34",
    technique="MIR data-flow chain (allow-list of iterator adaptors from `lines()` to `join`), closure-body checks of the "
              "prefix predicate and the marker slice, discriminant-arm effects of From<StringList>, who-may-match scan, "
              "caller argument tracing, extension -> language -> marker table composition (syntax tree + MIR constants)",
    text="Static rules on wit-bindgen-test: parse_test_config selects lines of the file text with a prefix construct "
         "(take_while / map_while / loop that breaks) whose predicate is `line.starts_with(marker)`, removes exactly "
         "`marker.len()` bytes, joins with \"\\n\" and hands exactly that text to toml::from_str; From<StringList> splits "
         "the string form with split_whitespace and passes the list form through; nothing else interprets a StringList; "
         "every caller passes the whole file text and the marker of the file's language. Partial: the TOML parser, "
         "serde and std iterator semantics are trusted, no input is executed.",
    note="mir+syn")

# ---------------------------------------------------------------------------------------------- names
LINES = re.compile(r"<impl str>::lines$")
STARTS_WITH = re.compile(r"<impl str>::starts_with$")
STRIP_PREFIX = re.compile(r"<impl str>::strip_prefix$")
STR_LEN = re.compile(r"<impl str>::len$")
STR_INDEX = re.compile(r"<impl std::ops::Index<I> for str>::index$")
SPLIT_WS = re.compile(r"<impl str>::split_whitespace$")
ANY_SPLIT = re.compile(r"<impl str>::r?split\w*$")
JOIN = re.compile(r"<impl \[T\]>::join$|slice::Join<.*>::join$")
TOML_FROM_STR = re.compile(r"^toml::(de::)?from_str$")
PARSE = "config::parse_test_config"
PREFIX_FN = "comment_prefix_for_test_config"

SELECT = ["Iterator::take_while", "Iterator::map_while"]
MAP = "Iterator::map"
COLLECT = ["Iterator::collect", "FromIterator::from_iter"]
VIEW = ["Deref::deref", "AsRef::as_ref", "Borrow::borrow", "Vec::as_slice", "String::as_str"]
ITER_SRC = ["IntoIterator::into_iter", "Iterator::by_ref"]
# adaptors that select / reorder / drop / add lines in a way that is not "the leading block"
FORBIDDEN = ["Iterator::filter", "Iterator::filter_map", "Iterator::skip_while", "Iterator::skip", "Iterator::step_by",
             "Iterator::rev", "Iterator::flat_map", "Iterator::flatten", "Iterator::chain", "Iterator::cycle",
             "Iterator::take", "Iterator::scan", "Iterator::zip", "Iterator::last", "Iterator::nth", "Iterator::find",
             "Iterator::find_map", "Iterator::position", "Iterator::fuse", "Iterator::peekable",
             "Iterator::intersperse", "Iterator::max", "Iterator::min", "Iterator::partition", "Iterator::dedup"]
ERR_WRAP = ["Try::branch", "Context::context", "Context::with_context", "Result::map_err", "Option::unwrap", "Option::expect",
            "Result::unwrap", "Result::expect"]
OWNED_STR = ["ToString::to_string", "ToOwned::to_owned", "From>::from", "From::from", "Into::into", "String::from",
             re.compile(r"<impl str>::to_string$|<impl str>::to_owned$|str::to_owned$|<str as .*ToOwned>::to_owned$")]

# line-comment syntax of the file types the runner knows (trusted table) — the marker is that syntax followed by `@`
EXT_COMMENT = {"rs": "//", "c": "//", "cpp": "//", "cs": "//", "mbt": "//", "go": "//", "d": "//", "wat": ";;"}
WIT_COMMENT = "//"


# ---------------------------------------------------------------------------------------------- helpers
def short(call):
    n = mir.norm(call.callee)
    return "::".join(n.replace(">", "").split("::")[-2:])


def desc(o):
    k = o.get("kind")
    if k == "call":
        return f"result of {short(o['call'])}"
    if k == "arg":
        return f"parameter #{o['n']}{''.join(p for p in o.get('proj', []) if p.startswith('.'))}"
    if k == "const":
        return f"constant {o.get('s', o.get('v', o.get('fn', '?')))!r}"
    if k == "agg":
        rv = o["rv"]
        return f"aggregate {rv.get('adt') or rv.get('closure') or 'tuple'}"
    return k or "unknown"


def trace(f, op, passthrough=()):
    """Origin of `op`, looking through calls that return (a view of / the success value of) their first argument.
    Returns (origin, [calls passed])."""
    passed = []
    o = f.origin(op)
    while o.get("kind") == "call" and passthrough and o["call"].matches(list(passthrough)) and o["call"].args:
        passed.append(o["call"])
        o = f.origin(o["call"].args[0])
    return o, passed


def chain_of(f, op):
    """All calls met walking first arguments backwards from `op`, outermost first, and the terminal origin."""
    out = []
    o = f.origin(op)
    while o.get("kind") == "call":
        out.append(o["call"])
        if not o["call"].args:
            break
        o = f.origin(o["call"].args[0])
    return out, o


def fields(o):
    return [p for p in o.get("proj", []) if isinstance(p, str) and p.startswith(".")]


def plain_arg(o, n=None):
    """the value is parameter n itself (through references / copies only)"""
    return o.get("kind") == "arg" and (n is None or o["n"] == n) and not fields(o) and \
        not any(isinstance(p, str) and p.startswith("as ") for p in o.get("proj", []))


def closure_of(c, f, op):
    """the closure function passed as operand `op`, with the operands it captures"""
    o = f.origin(op)
    if o.get("kind") == "agg" and "closure" in o["rv"]:
        g = c.fns.get(o["rv"]["closure"])
        if g is None:
            raise mir.AnchorMissing(f"closure body {o['rv']['closure']} not in the fact file")
        return g, o["rv"]["ops"]
    return None, None


def ret_origin(g):
    return g.place_origin({"l": 0})


def slice_calls(f, op, depth=10, acc=None):
    """calls in the backward data slice of an operand (through call arguments and aggregate operands)"""
    acc = acc if acc is not None else []
    if depth <= 0:
        return acc
    o = f.origin(op) if isinstance(op, dict) and ("mv" in op or "cp" in op or "c" in op) else op
    k = o.get("kind")
    if k == "call":
        if all(o["call"].bb != x.bb for x in acc):
            acc.append(o["call"])
            for a in o["call"].args:
                slice_calls(f, a, depth - 1, acc)
    elif k == "agg":
        for a in o["rv"].get("ops", []):
            slice_calls(f, a, depth - 1, acc)
    elif k == "bin":
        slice_calls(f, o["a"], depth - 1, acc)
        slice_calls(f, o["b"], depth - 1, acc)
    elif k == "un":
        slice_calls(f, o["a"], depth - 1, acc)
    return acc


class Roles:
    """who is `the line` and who is `the marker` inside a function body"""

    def __init__(self, is_line, is_marker):
        self.is_line = is_line
        self.is_marker = is_marker


def closure_roles(f, g, captured, marker_arg):
    """roles inside closure g (parameter 2 = the item; parameter 1 = captures built in f from `captured`)"""
    def is_line(o):
        return plain_arg(o, 2)

    def is_marker(o):
        if o.get("kind") != "arg" or o["n"] != 1:
            return False
        fl = fields(o)
        if len(fl) != 1 or not fl[0][1:].isdigit() or int(fl[0][1:]) >= len(captured):
            return False
        return plain_arg(f.origin(captured[int(fl[0][1:])]), marker_arg)
    return Roles(is_line, is_marker)


def strip_shape(g, o, roles):
    """Is origin `o` (in function g) the line with exactly the marker removed from its front?  -> (ok, why)"""
    if o.get("kind") != "call":
        return False, f"the piece is {desc(o)}, not a slice of the line"
    call = o["call"]
    if call.matches(["Option::unwrap", "Option::expect", "Option::unwrap_or", "Option::unwrap_or_default"]):
        return strip_shape(g, g.origin(call.args[0]), roles)
    if call.matches(STRIP_PREFIX):
        a, b = g.origin(call.args[0]), g.origin(call.args[1])
        if not roles.is_line(a):
            return False, f"strip_prefix is applied to {desc(a)}, not to the line"
        if not roles.is_marker(b):
            return False, f"strip_prefix removes {desc(b)}, not the marker"
        return True, "strip_prefix(marker)"
    if call.matches(STR_INDEX):
        a, r = g.origin(call.args[0]), g.origin(call.args[1])
        if not roles.is_line(a):
            return False, f"the slice is taken of {desc(a)}, not of the line"
        if r.get("kind") != "agg" or not str(r["rv"].get("adt", "")).endswith("ops::RangeFrom"):
            return False, f"the line is indexed with {desc(r)}, not with a `start..` range"
        s = g.origin(r["rv"]["ops"][0])
        if s.get("kind") != "call" or not s["call"].matches(STR_LEN):
            return False, f"the slice starts at {desc(s)}, not at marker.len()"
        m = g.origin(s["call"].args[0])
        if not roles.is_marker(m):
            return False, f"the slice starts at the length of {desc(m)}, not of the marker"
        return True, "line[marker.len()..]"
    return False, f"the piece is the {desc(o)}, not `line[marker.len()..]` / strip_prefix(marker)"


def prefix_test(g, o, roles):
    """Is origin `o` the un-negated result of line.starts_with(marker)? -> (ok, why, call)"""
    if o.get("kind") == "un":
        return False, "the test is negated / transformed", None
    if o.get("kind") != "call" or not o["call"].matches(STARTS_WITH):
        return False, f"the predicate is {desc(o)}, not str::starts_with", None
    call = o["call"]
    a, b = g.origin(call.args[0]), g.origin(call.args[1])
    if not roles.is_line(a):
        return False, f"starts_with is applied to {desc(a)}, not to the line itself", call
    if not roles.is_marker(b):
        return False, f"starts_with tests for {desc(b)}, not for the marker parameter", call
    return True, "", call


# ---------------------------------------------------------------------------------------------- run
def run(rep, tier):
    rep.describe(
        "other",
        "Structural necessary conditions of C34 on the MIR / syntax tree of crates/test: (R34.1) the pieces joined in "
        "parse_test_config come from `text.lines()` through exactly one prefix selector (take_while / map_while applied "
        "directly to lines(), or a loop whose non-matching edge leaves the loop), with no filter / skip_while / other "
        "adaptor; (R34.2) the selector's predicate is the un-negated `line.starts_with(marker)` on the line itself and "
        "the marker parameter; (R34.3) each piece is `line[marker.len()..]` (or strip_prefix(marker)); (R34.4) pieces "
        "are joined with \"\\n\", exactly that string goes to toml::from_str and its result is what is returned; "
        "(R34.5) From<StringList>: String arm = split_whitespace of the payload mapped to owned strings, List arm = the "
        "payload itself; (R34.6) no other function matches on StringList; (R34.7) StringList is an untagged "
        "String | Vec<String>; (R34.8) every caller passes the whole text read from the file (or the text stored with "
        "the component) and the marker literal `//@` for WIT or the language's comment_prefix_for_test_config; (R34.9) "
        "file extension -> Language -> object -> marker literal equals the file type's line-comment syntax + `@`. "
        "NOT decided: behaviour of toml / serde / std, CRLF or BOM handling, what the runner does with the parsed values.",
        trusted_base=["rustc nightly MIR of crates/test (native build)", "syn parse of crates/test/src/{config,lib}.rs",
                      "std::str::lines / take_while / split_whitespace semantics", "toml::from_str",
                      "table EXT_COMMENT in rules/C34.py (line-comment syntax per file extension)"],
        assumptions=["unwind edges ignored"],
    )
    c = mir.load("ws", "wit_bindgen_test", "rlib")
    rep.saw(file=CONFIG)
    rep.saw(file=LIB)
    st = {}
    rep.guard("R34.1", "parse_test_config", lambda: r_parse(rep, c, st))
    rep.guard("R34.5", "From<StringList>", lambda: r_from(rep, c))
    rep.guard("R34.6", "only readers", lambda: r_readers(rep, c))
    rep.guard("R34.7", "StringList shape", lambda: r_shape(rep, c))
    rep.guard("R34.8", "callers", lambda: r_callers(rep, c, st))
    rep.guard("R34.9", "marker table", lambda: r_markers(rep, c))


# ---------------------------------------------------------------------------------------------- R34.1 - R34.4
def r_parse(rep, c, st):
    f = c.fn(PARSE)
    rep.saw(f)
    cls = c.closures_of(f)
    for g in cls:
        rep.saw(g)
    P = "parse_test_config"

    joins = f.calls(JOIN)
    sb = string_builder(f) if not joins else None
    if sb is not None:
        bad = [(g, x) for g in [f] + cls for x in g.calls(FORBIDDEN)]
        rep.ob("R34.1", f"{P}: no filter / skip_while / filter_map / other selecting adaptor is applied to the lines",
               not bad, "calls " + ", ".join(short(x) for _, x in bad), bad[0][0].loc(bad[0][1].bb) if bad else f.loc())
        st["text_arg"], st["marker_arg"] = string_loop_form(rep, c, f, sb)
        parser_tail(rep, f, sb.bb)
        return
    rep.floor("R34.4", "join sites in parse_test_config", len(joins), 1)
    rep.ob("R34.4", f"{P}: the configuration text is built by exactly one join", len(joins) == 1, f"{len(joins)} join calls", f.loc())
    if len(joins) != 1:
        return
    join = joins[0]

    # --- R34.1: where do the joined pieces come from
    chain, term = chain_of(f, join.args[0])
    names = [short(x) for x in chain]
    src = [x for x in chain if x.matches(LINES)]
    text_arg = marker_arg = None

    bad = [(g, x) for g in [f] + cls for x in g.calls(FORBIDDEN)]
    rep.ob("R34.1", f"{P}: no filter / skip_while / filter_map / other selecting adaptor is applied to the lines",
           not bad, "calls " + ", ".join(short(x) for _, x in bad) + " (a non-prefix selection reads configuration from "
           "below the first non-comment line or drops leading lines)", bad[0][0].loc(bad[0][1].bb) if bad else f.loc())

    if src:
        # ---------------- adaptor form
        sel = [x for x in chain if x.matches(SELECT)]
        maps = [x for x in chain if x.matches(MAP)]
        rep.floor("R34.1", "prefix selector (take_while / map_while) in the chain lines() -> join", len(sel), 1)
        rep.ob("R34.1", f"{P}: lines are selected by exactly one prefix construct (take_while / map_while)", len(sel) == 1,
               f"chain is {' <- '.join(names)}", f.loc(join.bb))
        o = f.origin(src[0].args[0])
        ok = plain_arg(o) and chain[-1] is src[0]
        rep.ob("R34.1", f"{P}: the lines are those of the text parameter (text.lines())", ok, f"lines() is called on {desc(o)}",
               f.loc(src[0].bb))
        text_arg = o["n"] if ok else None
        other = [x for x in chain if not (x.matches(SELECT) or x.matches(MAP) or x.matches(COLLECT) or x.matches(VIEW)
                                          or x.matches(LINES))]
        rep.ob("R34.1", f"{P}: only take_while/map_while, map, collect and views lie between lines() and join", not other,
               "also in the chain: " + ", ".join(short(x) for x in other), f.loc(other[0].bb) if other else f.loc())
        if len(sel) != 1:
            return
        sel = sel[0]
        o = f.origin(sel.args[0])
        rep.ob("R34.1", f"{P}: the prefix selector is applied directly to lines() (before any mapping of the lines)",
               o.get("kind") == "call" and o["call"].bb == src[0].bb, f"it is applied to the {desc(o)}", f.loc(sel.bb))

        # --- R34.2 predicate
        g, caps = closure_of(c, f, sel.args[1])
        rep.ob("R34.2", f"{P}: the selector's predicate is a closure whose body can be inspected", g is not None,
               f"predicate is {desc(f.origin(sel.args[1]))}", f.loc(sel.bb))
        if g is None:
            return
        # which parameter is the marker: the one the predicate tests for
        sw_calls = g.calls(STARTS_WITH) + g.calls(STRIP_PREFIX)
        rep.floor("R34.2", "starts_with / strip_prefix tests in the selector predicate", len(sw_calls), 1)
        for x in sw_calls:
            b = g.origin(x.args[1])
            if b.get("kind") == "arg" and b["n"] == 1 and len(fields(b)) == 1 and fields(b)[0][1:].isdigit() and \
                    int(fields(b)[0][1:]) < len(caps):
                po = f.origin(caps[int(fields(b)[0][1:])])
                if plain_arg(po):
                    marker_arg = po["n"]
        rep.ob("R34.2", f"{P}: the marker tested for is the function's other parameter", marker_arg is not None and
               marker_arg != text_arg, f"marker parameter #{marker_arg}, text parameter #{text_arg}", g.loc())
        roles = closure_roles(f, g, caps, marker_arg)
        ro = ret_origin(g)
        if sel.matches("Iterator::take_while"):
            ok, why, _ = prefix_test(g, ro, roles)
            rep.ob("R34.2", f"{P}: take_while predicate is exactly `line.starts_with(marker)`", ok, why, g.loc())
            # --- R34.3 marker removal in the one map closure
            rep.floor("R34.3", "map (marker removal) between take_while and join", len(maps), 1)
            rep.ob("R34.3", f"{P}: exactly one map follows take_while", len(maps) == 1, f"{len(maps)} map calls in the chain", f.loc(sel.bb))
            for m in maps:
                h, hc = closure_of(c, f, m.args[1])
                if h is None:
                    rep.ob("R34.3", f"{P}: each piece is the line with exactly the marker removed (line[marker.len()..])", False,
                           f"the mapping function is {desc(f.origin(m.args[1]))}, not an inspectable closure", f.loc(m.bb))
                    continue
                ok, why = strip_shape(h, ret_origin(h), closure_roles(f, h, hc, marker_arg))
                rep.ob("R34.3", f"{P}: each piece is the line with exactly the marker removed (line[marker.len()..])", ok, why, h.loc())
        else:
            # map_while: Some(stripped) while the line starts with the marker, None at the first other line
            ok, why = map_while_shape(g, roles)
            rep.ob("R34.2", f"{P}: map_while closure yields Some exactly while `line.starts_with(marker)`", ok, why, g.loc())
            rep.ob("R34.3", f"{P}: each piece is the line with exactly the marker removed (line[marker.len()..])", ok, why, g.loc())
            rep.ob("R34.3", f"{P}: no further mapping of the pieces after map_while", not maps, f"{len(maps)} map calls", f.loc(sel.bb))
    else:
        # ---------------- loop form
        text_arg, marker_arg = loop_form(rep, c, f, join, chain, term)

    st["text_arg"], st["marker_arg"] = text_arg, marker_arg

    # --- R34.4 join separator, parser input, result
    o = f.origin(join.args[1])
    mir_ok = o.get("kind") == "const" and o.get("s") == "\n"
    syn_lits = []
    fn = synq.find_fn(CONFIG, "parse_test_config")
    for m in synq.method_calls(fn.body, "join"):
        syn_lits += [a["v"] for a in m["args"] if a.get("k") == "str"]
    syn_ok = all(v == "\n" for v in syn_lits)
    rep.ob("R34.4", f"{P}: the pieces are joined with a single newline", mir_ok and syn_ok,
           f"separator is {desc(o)}; source literal(s) {syn_lits!r}", f.loc(join.bb))

    parser_tail(rep, f, join.bb)


def string_builder(f):
    """the `String::new()` whose value is what toml::from_str receives (text assembled by push / push_str), if any"""
    parsers = [x for x in f.calls() if x.matches(TOML_FROM_STR)]
    if len(parsers) != 1:
        return None
    o, _ = trace(f, parsers[0].args[0], VIEW)
    if o.get("kind") == "call" and o["call"].matches(["String::new", "String::with_capacity"]):
        return o["call"]
    return None


def parser_tail(rep, f, text_bb):
    P = "parse_test_config"
    parsers = [x for x in f.calls() if x.matches(TOML_FROM_STR)]
    rep.floor("R34.4", "toml::from_str sites in parse_test_config", len(parsers), 1)
    rep.ob("R34.4", f"{P}: the text is parsed once, by toml::from_str", len(parsers) == 1,
           f"{len(parsers)} toml::from_str calls; other from_str: {[short(x) for x in f.calls(re.compile('from_str$')) if not x.matches(TOML_FROM_STR)]}",
           f.loc())
    for p in parsers:
        o, _ = trace(f, p.args[0], VIEW)
        rep.ob("R34.4", f"{P}: toml::from_str receives exactly the joined text", o.get("kind") == "call" and o["call"].bb == text_bb,
               f"it receives the {desc(o)}", f.loc(p.bb))
        rep.ob("R34.4", f"{P}: every return passes toml::from_str", every_return_passes(f, [p.bb]), "", f.loc(p.bb))
        defs0 = [d for d in f.defs.get(0, []) if d[0] in f.live]
        ok = bool(defs0)
        for b, i, kind, payload in defs0:
            if kind == "call":
                cs = slice_calls(f, {"kind": "call", "call": mir.Call(b, payload)})
            elif kind == "assign":
                if payload["k"] == "use":
                    cs = slice_calls(f, payload["o"])
                elif payload["k"] == "agg":
                    cs = slice_calls(f, {"kind": "agg", "rv": payload})
                else:
                    cs = []
            else:
                cs = []
            ok = ok and any(x.bb == p.bb for x in cs)
        rep.ob("R34.4", f"{P}: what is returned is derived from the parser's result", ok, "", f.loc(p.bb))


def no_inner_cycle(f, bb, head):
    """bb lies on no cycle that avoids the loop head"""
    return all(bb not in f.reachable(x, avoid=[head]) for x in f.succ[bb])


def string_loop_form(rep, c, f, S):
    """let mut text = String::new();
       for (i, line) in src.lines().enumerate() { let Some(p) = line.strip_prefix(marker) else { break };
                                                  if i > 0 { text.push('\n') } text.push_str(p) }
    Equal to join("\n") of the leading pieces: every kept line appended once, in order, one newline before each but the
    first (the enumerate index counts kept lines because the loop leaves at the first other line)."""
    P = "parse_test_config"

    def is_S(op):
        o = f.origin(op)
        return o.get("kind") == "call" and o["call"].bb == S.bb

    nexts = f.calls("Iterator::next")
    rep.floor("R34.1", "Iterator::next sites of the line loop", len(nexts), 1)
    rep.ob("R34.1", f"{P}: one loop over the lines", len(nexts) == 1 and f.in_cycle(nexts[0].bb), f"{len(nexts)} next() calls", f.loc())
    if len(nexts) != 1:
        return None, None
    N = nexts[0]
    o, passed = trace(f, N.args[0], ITER_SRC + ["Iterator::enumerate"])
    n_enum = sum(1 for x in passed if x.matches("Iterator::enumerate"))
    text_arg = None
    ok = o.get("kind") == "call" and o["call"].matches(LINES) and n_enum <= 1
    if ok:
        t = f.origin(o["call"].args[0])
        ok = plain_arg(t)
        text_arg = t["n"] if ok else None
    rep.ob("R34.1", f"{P}: the lines are those of the text parameter (text.lines())", ok,
           f"the loop iterates the {desc(o)} ({n_enum} enumerate)", f.loc(N.bb))
    line_f = [".0", ".1"] if n_enum else [".0"]

    def item(o_, want):
        return o_.get("kind") == "call" and o_["call"].bb == N.bb and "as Some" in o_.get("proj", []) and fields(o_) == want

    some_t = None
    for b, m, od in discr_switches(f):
        of = od.get("of", {})
        if of.get("kind") == "call" and of["call"].bb == N.bb:
            some_t = variant_target(m, "Some")
    tests = f.calls(STARTS_WITH) + f.calls(STRIP_PREFIX)
    rep.floor("R34.2", "starts_with / strip_prefix tests in the selector predicate", len(tests), 1)
    marker_arg = None
    for x in tests:
        b_ = f.origin(x.args[1])
        if plain_arg(b_):
            marker_arg = b_["n"]
    rep.ob("R34.2", f"{P}: the marker tested for is the function's other parameter", marker_arg is not None and marker_arg != text_arg,
           f"marker parameter #{marker_arg}, text parameter #{text_arg}", f.loc())
    roles = Roles(lambda o_: item(o_, line_f), lambda o_: plain_arg(o_, marker_arg))
    sw = acc_t = rej_t = None
    piece_ok = None
    why = f"{len(tests)} prefix tests"
    if len(tests) == 1 and tests[0].matches(STRIP_PREFIX):
        T = tests[0]
        ok, why = strip_shape(f, {"kind": "call", "call": T}, roles)
        for b, m, od in discr_switches(f):
            of = od.get("of", {})
            if ok and of.get("kind") == "call" and of["call"].bb == T.bb and not fields(of):
                sw, acc_t, rej_t = b, variant_target(m, "Some"), variant_target(m, "None")

        def piece_ok(o_):
            return (o_.get("kind") == "call" and o_["call"].bb == T.bb and "as Some" in o_.get("proj", []) and
                    fields(o_) == [".0"]), f"the piece appended is {desc(o_)}"
    elif len(tests) == 1:
        ok, why, _ = prefix_test(f, {"kind": "call", "call": tests[0]}, roles)
        sws = bool_switches_on_call(f, STARTS_WITH)
        if ok and len(sws) == 1:
            sw, rej_t, acc_t = sws[0]

        def piece_ok(o_):
            return strip_shape(f, o_, roles)
    structured = sw is not None and acc_t is not None and rej_t is not None and some_t is not None
    rep.ob("R34.2", f"{P}: take_while predicate is exactly `line.starts_with(marker)`", structured, why,
           f.loc(tests[0].bb) if tests else f.loc())
    if not structured:
        rep.ob("R34.1", f"{P}: the loop leaves at the first line that does not start with the marker", False,
               "loop structure not recognised", f.loc(N.bb))
        return text_arg, marker_arg
    rep.ob("R34.1", f"{P}: the loop leaves at the first line that does not start with the marker", N.bb not in f.reachable(rej_t),
           "the non-matching edge continues with the next line (this is a filter, not a prefix)", f.loc(sw))
    rep.ob("R34.1", f"{P}: the prefix selector is applied directly to lines() (before any mapping of the lines)",
           N.bb not in f.reachable(some_t, avoid_edges=[(sw, acc_t)]),
           "a path returns to next() without passing the matching edge of the prefix test", f.loc(sw))
    # ---- what is appended to the text
    muts = [x for x in f.calls() if any(is_S(a) for a in x.args) and not x.matches(VIEW)]
    strs = [x for x in muts if x.matches("String::push_str")]
    seps = [x for x in muts if x.matches("String::push")]
    others = [x for x in muts if not x.matches(["String::push_str", "String::push"])]
    rep.floor("R34.4", "join sites in parse_test_config", len(seps), 1)
    rep.ob("R34.4", f"{P}: the configuration text is built by exactly one join", len(seps) == 1 and len(strs) == 1 and not others,
           f"{len(strs)} push_str, {len(seps)} push sites on the text; also passed to {[short(x) for x in others]}", f.loc())
    rep.ob("R34.1", f"{P}: only take_while/map_while, map, collect and views lie between lines() and join", not others,
           "the text is also passed to " + ", ".join(short(x) for x in others), f.loc(others[0].bb) if others else f.loc())
    rep.floor("R34.3", "map (marker removal) between take_while and join", len(strs), 1)
    region = f.edge_region(sw, acc_t)
    rep.ob("R34.3", f"{P}: exactly one map follows take_while", len(strs) == 1 and strs[0].bb in region and
           f.all_paths_pass(acc_t, [N.bb], [strs[0].bb]) and no_inner_cycle(f, strs[0].bb, N.bb),
           f"{len(strs)} push_str sites; every accepted line must be appended exactly once, on the matching edge", f.loc(sw))
    for x in strs:
        ok, why = piece_ok(f.origin(x.args[1]))
        rep.ob("R34.3", f"{P}: each piece is the line with exactly the marker removed (line[marker.len()..])", ok, why, f.loc(x.bb))
    # ---- the separator: one '\n' before every kept line but the first
    ok, why = False, f"{len(seps)} separator push sites, {len(strs)} piece sites"
    if len(seps) == 1 and len(strs) == 1:
        sep, piece = seps[0], strs[0]
        so = f.origin(sep.args[1])
        ok = so.get("kind") == "const" and so.get("v") == 10 and "char" in str(so.get("ty"))
        why = f"the separator is {desc(so)}"
        if ok:
            ok, why = False, "the separator is not guarded by `index > 0` on the enumerate index of lines()"
            for b2, t2 in f.switches():
                g_ = f.switch_origin(b2)
                if g_.get("kind") != "bin" or n_enum != 1:
                    continue
                a_, b_ = g_["a"], g_["b"]
                idx0 = (g_["op"] in ("Gt", "Ne") and item(a_, [".0", ".0"]) and b_.get("kind") == "const" and b_.get("v") == 0) or \
                    (g_["op"] == "Ge" and item(a_, [".0", ".0"]) and b_.get("kind") == "const" and b_.get("v") == 1) or \
                    (g_["op"] in ("Lt", "Ne") and item(b_, [".0", ".0"]) and a_.get("kind") == "const" and a_.get("v") == 0)
                tg = f.switch_targets(b2)
                if not idx0 or 0 not in tg:
                    continue
                true_t = tg["else"]
                ok = sep.bb in f.edge_region(b2, true_t) and f.all_paths_pass(true_t, [piece.bb, N.bb] + f.returns(), [sep.bb]) and \
                    sep.bb not in f.reachable(piece.bb, avoid=[N.bb]) - {piece.bb} and no_inner_cycle(f, sep.bb, N.bb) and \
                    f.all_paths_pass(some_t, [piece.bb], [b2])
                why = "index > 0 guard found" if ok else "the newline is not pushed exactly once before the piece on the `index > 0` edge"
                break
    rep.ob("R34.4", f"{P}: the pieces are joined with a single newline", ok, why, f.loc(seps[0].bb) if seps else f.loc())
    parsers = [x for x in f.calls() if x.matches(TOML_FROM_STR)]
    rep.ob("R34.4", f"{P}: the text is parsed after the loop has finished",
           all(not f.in_cycle(p.bb) and f.set_dominates({N.bb}, p.bb) and N.bb not in f.reachable(p.bb) for p in parsers),
           "toml::from_str is reached inside / before the line loop", f.loc())
    return text_arg, marker_arg


def map_while_shape(g, roles):
    ro = ret_origin(g)
    if ro.get("kind") == "call":
        ok, why = strip_shape(g, ro, roles)
        if ok and ro["call"].matches(STRIP_PREFIX):
            return True, why
        return False, why if not ok else "the closure does not return an Option tied to the prefix test"
    sws = bool_switches_on_call(g, STARTS_WITH)
    if len(sws) != 1:
        return False, f"{len(sws)} starts_with tests decide the closure's result"
    b, ft, tt = sws[0]
    ok, why, _ = prefix_test(g, g.switch_origin(b) if g.switch_origin(b).get("kind") == "call" else g.switch_origin(b).get("a", {}), roles)
    if not ok:
        return False, why
    rt_, rf_ = g.edge_region(b, tt), g.edge_region(b, ft)
    somes = g.aggregates("Option", "Some")
    nones = g.aggregates("Option", "None")
    if not somes or not nones:
        return False, "the closure does not build both Some and None"
    if not all(bb in rt_ for bb, _, _, _ in somes) or not all(bb in rf_ for bb, _, _, _ in nones):
        return False, "Some is not confined to the matching edge / None to the non-matching edge"
    for bb, _, rv, _ in somes:
        ok, why = strip_shape(g, g.origin(rv["ops"][0]), roles)
        if not ok:
            return False, why
    return True, "if line.starts_with(marker) { Some(line[marker.len()..]) } else { None }"


def loop_form(rep, c, f, join, chain, term):
    """for line in text.lines() { if !line.starts_with(marker) { break } pieces.push(&line[marker.len()..]) }"""
    P = "parse_test_config"
    vec_call = chain[-1] if chain and chain[-1].matches(["Vec::new", "Vec::with_capacity"]) else None
    rep.ob("R34.1", f"{P}: lines are selected by exactly one prefix construct (take_while / map_while)", vec_call is not None and
           all(x.matches(VIEW) for x in chain[:-1]),
           f"no lines() chain and no locally built vector feeds join (chain: {' <- '.join(short(x) for x in chain)}; ends at {desc(term)})",
           f.loc(join.bb))
    if vec_call is None:
        return None, None

    def is_vec(op):
        o = f.origin(op)
        return o.get("kind") == "call" and o["call"].bb == vec_call.bb

    nexts = [x for x in f.calls("Iterator::next")]
    rep.floor("R34.1", "Iterator::next sites of the line loop", len(nexts), 1)
    rep.ob("R34.1", f"{P}: one loop over the lines", len(nexts) == 1 and f.in_cycle(nexts[0].bb), f"{len(nexts)} next() calls", f.loc())
    if len(nexts) != 1:
        return None, None
    N = nexts[0]
    o, passed = trace(f, N.args[0], ITER_SRC)
    text_arg = None
    ok = o.get("kind") == "call" and o["call"].matches(LINES)
    if ok:
        t = f.origin(o["call"].args[0])
        ok = plain_arg(t)
        text_arg = t["n"] if ok else None
    rep.ob("R34.1", f"{P}: the lines are those of the text parameter (text.lines())", ok, f"the loop iterates the {desc(o)}", f.loc(N.bb))

    some_t = None
    for b, m, od in discr_switches(f):
        of = od.get("of", {})
        if of.get("kind") == "call" and of["call"].bb == N.bb:
            some_t = variant_target(m, "Some")

    def is_line(o_):
        return o_.get("kind") == "call" and o_["call"].bb == N.bb and any(p == "as Some" for p in o_.get("proj", []))

    tests = f.calls(STARTS_WITH)
    rep.floor("R34.2", "starts_with / strip_prefix tests in the selector predicate", len(tests), 1)
    marker_arg = None
    for x in tests:
        b_ = f.origin(x.args[1])
        if plain_arg(b_):
            marker_arg = b_["n"]
    rep.ob("R34.2", f"{P}: the marker tested for is the function's other parameter", marker_arg is not None and marker_arg != text_arg,
           f"marker parameter #{marker_arg}, text parameter #{text_arg}", f.loc())
    roles = Roles(is_line, lambda o_: plain_arg(o_, marker_arg))
    sws = bool_switches_on_call(f, STARTS_WITH)
    rep.ob("R34.2", f"{P}: take_while predicate is exactly `line.starts_with(marker)`", len(sws) == 1 and len(tests) == 1 and
           prefix_test(f, {"kind": "call", "call": tests[0]}, roles)[0],
           f"{len(sws)} switches on {len(tests)} starts_with calls; " + (prefix_test(f, {"kind": "call", "call": tests[0]}, roles)[1] if tests else ""),
           f.loc(tests[0].bb) if tests else f.loc())
    if len(sws) != 1 or some_t is None:
        rep.ob("R34.1", f"{P}: the loop leaves at the first line that does not start with the marker", False,
               "loop structure not recognised", f.loc(N.bb))
        return text_arg, marker_arg
    b, ft, tt = sws[0]
    rep.ob("R34.1", f"{P}: the loop leaves at the first line that does not start with the marker", N.bb not in f.reachable(ft),
           "the non-matching edge continues with the next line (this is a filter, not a prefix)", f.loc(b))
    rep.ob("R34.1", f"{P}: the prefix selector is applied directly to lines() (before any mapping of the lines)",
           N.bb not in f.reachable(some_t, avoid_edges=[(b, tt)]),
           "a path returns to next() without passing the matching edge of the starts_with test", f.loc(b))
    pushes = [x for x in f.calls("Vec::push") if is_vec(x.args[0])]
    rep.floor("R34.3", "map (marker removal) between take_while and join", len(pushes), 1)
    rep.ob("R34.3", f"{P}: exactly one map follows take_while", len(pushes) == 1 and
           all(x.bb in f.edge_region(b, tt) for x in pushes) and f.all_paths_pass(tt, [N.bb], [x.bb for x in pushes]),
           f"{len(pushes)} push sites; every accepted line must be pushed once, on the matching edge", f.loc(b))
    for x in pushes:
        ok, why = strip_shape(f, f.origin(x.args[1]), roles)
        rep.ob("R34.3", f"{P}: each piece is the line with exactly the marker removed (line[marker.len()..])", ok, why, f.loc(x.bb))
    others = [x for x in f.calls() if x.args and is_vec(x.args[0]) and not x.matches(["Vec::push"] + VIEW)]
    rep.ob("R34.1", f"{P}: only take_while/map_while, map, collect and views lie between lines() and join", not others,
           "the piece vector is also passed to " + ", ".join(short(x) for x in others), f.loc(others[0].bb) if others else f.loc())
    return text_arg, marker_arg


# ---------------------------------------------------------------------------------------------- R34.5
def local_fn(c, call):
    """the body of a called free function / inherent method of this crate (not a closure), if it is in the fact file"""
    for n in call.names():
        h = c.fns.get(n)
        if h is not None and "{closure" not in h.path and n.startswith("crate::"):
            return h
    return None


def words_value(c, g, o, src_ok):
    """Is origin `o` in function g the value `src.split_whitespace()` with every word turned into an owned String, in order,
    none dropped?  src_ok(origin) recognises the source string.  Forms: collect <- map(owned) <- split_whitespace <- src,
    or a vector built by a loop that pushes owned(word) for every item of split_whitespace(src)."""
    r = dict(ok=False, why="", sp=None, sp_ok=False, sp_why="", sp_loc=g.loc(), owned=[])
    if o.get("kind") != "call":
        r["why"] = f"the result is {desc(o)}"
        return r
    chain = [o["call"]]
    o_ = g.origin(chain[0].args[0]) if chain[0].args else {"kind": "unknown"}
    while o_.get("kind") == "call":
        chain.append(o_["call"])
        if not o_["call"].args:
            break
        o_ = g.origin(o_["call"].args[0])
    names = [short(x) for x in chain]
    if chain[0].matches(["Vec::new", "Vec::with_capacity"]) and not fields(o):
        return words_loop(c, g, chain[0], src_ok, r)
    sp = [x for x in chain if x.matches(SPLIT_WS)]
    other = [x for x in chain if not (x.matches(SPLIT_WS) or x.matches(MAP) or x.matches(COLLECT) or x.matches(VIEW))]
    r["ok"] = len(sp) == 1 and not other and chain[0].matches(COLLECT) and src_ok(o_)
    r["why"] = f"chain {' <- '.join(names)} ends at {desc(o_)}"
    if sp:
        v, _ = trace(g, sp[0].args[0], VIEW)
        r.update(sp=sp[0], sp_ok=src_ok(v), sp_why=f"applied to {desc(v)}", sp_loc=g.loc(sp[0].bb))
    for mcall in [x for x in chain if x.matches(MAP)]:
        h, _ = closure_of(c, g, mcall.args[1])
        if h is None:
            fo = g.origin(mcall.args[1])
            ok = fo.get("kind") == "const" and bool(
                re.search(r"to_string$|to_owned$|String::from$|From>::from$|Into>::into$", str(fo.get("fn", ""))))
            r["owned"].append((ok, f"mapping function is {desc(fo)}", g.loc(mcall.bb)))
            continue
        ro = ret_origin(h)
        ok = ro.get("kind") == "call" and ro["call"].matches(OWNED_STR) and plain_arg(h.origin(ro["call"].args[0]), 2) and \
            len(h.calls()) == 1
        r["owned"].append((ok, f"the mapping closure returns the {desc(ro)} (calls: {[short(x) for x in h.calls()]})", h.loc()))
    return r


def words_loop(c, g, V, src_ok, r):
    """let mut v = Vec::new(); for w in src.split_whitespace() { v.push(owned(w)) } v"""
    def is_V(op):
        o = g.origin(op)
        return o.get("kind") == "call" and o["call"].bb == V.bb

    nexts = g.calls("Iterator::next")
    if len(nexts) != 1 or not g.in_cycle(nexts[0].bb):
        r["why"] = f"a vector built with {len(nexts)} next() loops"
        return r
    N = nexts[0]
    o, _ = trace(g, N.args[0], ITER_SRC)
    if o.get("kind") != "call" or not o["call"].matches(SPLIT_WS):
        r["why"] = f"the loop iterates the {desc(o)}, not split_whitespace()"
        return r
    sp = o["call"]
    v, _ = trace(g, sp.args[0], VIEW)
    r.update(sp=sp, sp_ok=src_ok(v), sp_why=f"applied to {desc(v)}", sp_loc=g.loc(sp.bb))
    some_t = None
    for b, m, od in discr_switches(g):
        of = od.get("of", {})
        if of.get("kind") == "call" and of["call"].bb == N.bb:
            some_t = variant_target(m, "Some")
    muts = [x for x in g.calls() if any(is_V(a) for a in x.args) and not x.matches(VIEW)]
    pushes = [x for x in muts if x.matches("Vec::push")]
    others = [x for x in muts if not x.matches("Vec::push")]
    if some_t is None or len(pushes) != 1 or others:
        r["why"] = f"{len(pushes)} push sites, vector also passed to {[short(x) for x in others]}"
        return r
    p = pushes[0]
    rets = g.returns()
    every = g.all_paths_pass(some_t, [N.bb] + rets, [p.bb]) and no_inner_cycle(g, p.bb, N.bb) and \
        not (g.reachable(some_t, avoid=[N.bb]) & set(rets))
    r["ok"] = bool(every and src_ok(v))
    r["why"] = "loop pushing every word of split_whitespace()" if every else \
        "not every word is pushed exactly once (a path skips the push, repeats it, or leaves the loop early)"
    po = g.origin(p.args[1])
    ok = po.get("kind") == "call" and po["call"].matches(OWNED_STR)
    if ok:
        w = g.origin(po["call"].args[0])
        ok = w.get("kind") == "call" and w["call"].bb == N.bb and "as Some" in w.get("proj", []) and fields(w) == [".0"]
    r["owned"].append((ok, f"the value pushed is the {desc(po)}", g.loc(p.bb)))
    return r


def string_list_switch(f):
    out = []
    for b, m, o in discr_switches(f):
        ty = o["ty"]
        if "<" not in ty and ty.split("::")[-1] == "StringList":
            out.append((b, m, o))
    return out


def r_from(rep, c):
    cands = [f for f in c.fns.values() if f.d.get("trait") and mir.suffix_match(mir.norm(f.d["trait"]), "From")
             and f.npath.endswith("::from") and "StringList" in f.path and "{closure" not in f.path]
    if len(cands) != 1:
        raise mir.AnchorMissing(f"impl From<StringList> for Vec<String>: {len(cands)} candidates")
    f = cands[0]
    rep.saw(f)
    F = "From<StringList>"
    sws = string_list_switch(f)
    rep.floor("R34.5", "match on StringList in From<StringList>", len(sws), 1)
    rep.ob("R34.5", f"{F}: one match on the argument", len(sws) == 1 and plain_arg(sws[0][2].get("of", {}), 1), "", f.loc())
    if len(sws) != 1:
        return
    b, m, o = sws[0]
    st_, lt_ = variant_target(m, "String"), variant_target(m, "List")
    rep.ob("R34.5", f"{F}: distinct arms for String and List", st_ is not None and lt_ is not None and st_ != lt_, f"{m}", f.loc(b))
    if st_ is None or lt_ is None or st_ == lt_:
        return
    rs, rl = f.edge_region(b, st_), f.edge_region(b, lt_)
    defs0 = [d for d in f.defs.get(0, []) if d[0] in f.live]
    in_s = [d for d in defs0 if d[0] in rs]
    in_l = [d for d in defs0 if d[0] in rl]
    rep.ob("R34.5", f"{F}: the result is produced inside the two arms only", len(in_s) == 1 and len(in_l) == 1 and len(defs0) == 2,
           f"{len(defs0)} assignments of the result ({len(in_s)} in String arm, {len(in_l)} in List arm)", f.loc(b))

    def payload_of(o_, variant):
        pr = o_.get("proj", [])
        return o_.get("kind") == "arg" and o_["n"] == 1 and ("as " + variant) in pr and fields(o_) == [".0"]

    # ---- String arm
    for g in c.closures_of(f):
        rep.saw(g)
    splits = [x for x in f.calls(ANY_SPLIT) if x.bb in rs] + [x for g in c.closures_of(f) for x in g.calls(ANY_SPLIT)]
    results = []
    for bb, i, kind, payload in in_s:
        if kind != "call":
            rep.ob("R34.5", f"{F}: String arm result = payload.split_whitespace() mapped to owned strings, collected", False,
                   "the result is not produced by collecting an iterator", f.loc(bb))
            continue
        call = mir.Call(bb, payload)
        g, where, src_ok = f, {"kind": "call", "call": call}, (lambda o_: payload_of(o_, "String"))
        helper = local_fn(c, call)
        pre = ""
        if helper is not None and len(call.args) == 1 and helper.argc == 1:
            # a private helper of the same crate: its result must be the words of its parameter, and it gets the payload
            rep.saw(helper)
            for h in c.closures_of(helper):
                rep.saw(h)
            v, _ = trace(f, call.args[0], VIEW)
            splits += helper.calls(ANY_SPLIT) + [x for h in c.closures_of(helper) for x in h.calls(ANY_SPLIT)]
            if not payload_of(v, "String"):
                rep.ob("R34.5", f"{F}: String arm result = payload.split_whitespace() mapped to owned strings, collected", False,
                       f"helper {short(call)} is applied to {desc(v)}, not to the string payload", f.loc(bb))
                continue
            pre = f"via helper {short(call)}: "
            g, where, src_ok = helper, ret_origin(helper), (lambda o_: plain_arg(o_, 1))
        results.append((bb, pre, words_value(c, g, where, src_ok)))
    rep.floor("R34.5", "split calls in the String arm", len(splits), 1)
    rep.ob("R34.5", f"{F}: String arm splits only with split_whitespace", len(splits) == 1 and splits[0].matches(SPLIT_WS),
           "split calls: " + ", ".join(short(x) for x in splits), f.loc(b))
    for bb, pre, r in results:
        rep.ob("R34.5", f"{F}: String arm result = payload.split_whitespace() mapped to owned strings, collected", r["ok"],
               pre + r["why"], f.loc(bb))
        if r["sp"] is not None:
            rep.ob("R34.5", f"{F}: split_whitespace is applied to the whole string payload", r["sp_ok"], pre + r["sp_why"], r["sp_loc"])
        for ok, why, loc in r["owned"]:
            rep.ob("R34.5", f"{F}: each word is converted to an owned string unchanged", ok, pre + why, loc)
    # ---- List arm
    for bb, i, kind, payload in in_l:
        ok = False
        why = "the result is computed by a call"
        if kind == "assign" and payload["k"] == "use":
            o_ = f.origin(payload["o"])
            ok = payload_of(o_, "List")
            why = f"the result is {desc(o_)}"
            # the payload local must not be handed out mutably before it is returned
            pl = payload["o"].get("mv") or payload["o"].get("cp")
            if ok and pl is not None and not pl.get("p"):
                muts = [(b2, s) for b2 in rl for s in f.stmts(b2) if s["k"] == "=" and s["rv"]["k"] in ("ref", "rawptr")
                        and s["rv"].get("m", s["rv"]["k"] == "rawptr") and s["rv"]["p"]["l"] == pl["l"]]
                if muts:
                    ok = False
                    why = "the list is mutably borrowed (modified) before being returned"
        rep.ob("R34.5", f"{F}: List arm returns the list unchanged", ok, why, f.loc(bb))


# ---------------------------------------------------------------------------------------------- R34.6 / R34.7
def r_readers(rep, c):
    n = 0
    for f in c.fns.values():
        sws = string_list_switch(f)
        if not sws:
            continue
        n += 1
        tr = mir.norm(f.d.get("trait") or "")
        owner = f.npath.split("::")[-1]
        is_from = mir.suffix_match(tr, "From") and owner == "from" and "StringList" in f.path
        derived = (mir.suffix_match(tr, "Clone") or mir.suffix_match(tr, "Debug") or mir.suffix_match(tr, "PartialEq")
                   or mir.suffix_match(tr, "Hash")) and mir.base_type(f.d.get("self_ty") or "") == "StringList"
        where = owner_name(f)
        rep.ob("R34.6", f"match on StringList in {where}", is_from or derived,
               "a StringList is taken apart outside From<StringList> (the string form may be interpreted differently there)",
               f.loc(sws[0][0]))
    rep.floor("R34.6", "functions matching on StringList", n, 3)


def r_shape(rep, c):
    a = c.adt("config::StringList")
    vs = [(v["name"], [t for _, t in v["fields"]]) for v in a["variants"]]
    rep.ob("R34.7", "StringList = String(String) | List(Vec<String>)",
           sorted(vs) == sorted([("String", ["std::string::String"]), ("List", ["std::vec::Vec<std::string::String>"])]),
           f"{vs}", CONFIG)
    en = [it for it in synq.items_of(CONFIG, ("enum_def",)) if it["name"] == "StringList"]
    if len(en) != 1:
        raise mir.AnchorMissing(f"enum StringList in {CONFIG}: {len(en)}")
    attrs = [re.sub(r"\s+", "", x) for x in en[0].get("attrs", [])]
    der = [x for x in attrs if x.startswith("derive(")]
    rep.ob("R34.7", "StringList derives Deserialize", any(re.search(r"[(,]Deserialize[,)]", x) for x in der), f"{attrs}",
           f"{CONFIG}:{synq.line(en[0])}")
    rep.ob("R34.7", "StringList is #[serde(untagged)] (a bare string and a list are both accepted)",
           any(x.startswith("serde(") and re.search(r"[(,]untagged[,)]", x) for x in attrs), f"{attrs}", f"{CONFIG}:{synq.line(en[0])}")
    # variant-level serde attributes could rename / skip a form
    vat = [x for v in en[0]["variants"] for x in v.get("attrs", [])] + [x for v in en[0]["variants"] for fl in v["fields"] for x in fl.get("attrs", [])]
    rep.ob("R34.7", "no variant of StringList carries a serde attribute", not [x for x in vat if "serde" in x], f"{vat}",
           f"{CONFIG}:{synq.line(en[0])}")


# ---------------------------------------------------------------------------------------------- R34.8
def owner_name(f):
    p = f.npath.replace("crate::", "")
    return re.sub(r"::\{closure#\d+\}", "::{closure}", p)


def r_callers(rep, c, st):
    text_arg = st.get("text_arg") or 1
    marker_arg = st.get("marker_arg") or 2
    sites = []
    for f in c.fns.values():
        for call in f.calls(PARSE):
            sites.append((f, call))
    rep.floor("R34.8", "call sites of parse_test_config", len(sites), 4)
    seen = {}
    for f, call in sites:
        rep.saw(f)
        k = owner_name(f)
        seen[k] = seen.get(k, 0) + 1
        tag = k if seen[k] == 1 else f"{k} (site {seen[k]})"
        if len(call.args) != 2:
            rep.ob("R34.8", f"{tag}: passes text and marker", False, f"{len(call.args)} arguments", f.loc(call.bb))
            continue
        # ---- text
        o, passed = trace(f, call.args[text_arg - 1], VIEW + ERR_WRAP)
        from_file = o.get("kind") == "call" and o["call"].matches("fs::read_to_string")
        from_comp = o.get("kind") == "arg" and fields(o) == [".contents"] and "Component" in f.locals[o["n"]]
        rep.ob("R34.8", f"{tag}: the text parsed is the whole file (fs::read_to_string) or the component's stored text",
               from_file or from_comp, f"the text is {desc(o)}", f.loc(call.bb))
        # ---- marker
        mo, mpassed = trace(f, call.args[marker_arg - 1], ["Option::unwrap", "Option::expect"])
        if mo.get("kind") == "const":
            rep.ob("R34.8", f"{tag}: a literal marker is WIT's line comment followed by `@`", mo.get("s") == WIT_COMMENT + "@",
                   f"literal {mo.get('s')!r}", f.loc(call.bb))
            rep.ob("R34.8", f"{tag}: a literal marker is only used with text read from a file", from_file, "", f.loc(call.bb))
            lang_aware = [short(x) for x in f.calls(["LanguageMethods::" + PREFIX_FN, "Language::obj"])]
            rep.ob("R34.8", f"{tag}: a literal marker is not used where the file's language is consulted or a Component is built",
                   not lang_aware and not f.aggregates("Component"),
                   f"the function handles per-language source files (calls {lang_aware}, builds Component: "
                   f"{bool(f.aggregates('Component'))}) but passes a fixed marker", f.loc(call.bb))
            continue
        is_m = mo.get("kind") == "call" and mo["call"].matches("LanguageMethods::" + PREFIX_FN)
        via_some = bool(mpassed) or "as Some" in mo.get("proj", [])
        rep.ob("R34.8", f"{tag}: the marker is the language's comment_prefix_for_test_config()", is_m and via_some,
               f"the marker is {desc(mo)}", f.loc(call.bb))
        if not is_m:
            continue
        lo, _ = trace(f, mo["call"].args[0], ["Language::obj"])
        if from_comp:
            rep.ob("R34.8", f"{tag}: marker language and text belong to the same component",
                   lo.get("kind") == "arg" and lo["n"] == o["n"] and fields(lo) == [".language"],
                   f"language is {desc(lo)}", f.loc(call.bb))
        else:
            # the component built from this file stores the same text and the same language
            aggs = f.aggregates("Component")
            rep.ob("R34.8", f"{tag}: builds the Component whose stored text/language are re-parsed later", len(aggs) >= 1,
                   "no Component construction", f.loc())
            for bb, i, rv, s in aggs:
                ops = dict(zip(rv["fields"], rv["ops"]))
                co, _ = trace(f, ops.get("contents", {}), ERR_WRAP)
                same_text = co.get("kind") == "call" and o.get("kind") == "call" and co["call"].bb == o["call"].bb
                rep.ob("R34.8", f"{tag}: Component.contents is the very text that was parsed", same_text,
                       f"stored text is {desc(co)}", f.loc(bb))
                la = f.origin(ops.get("language", {}))
                same_lang = la.get("kind") == lo.get("kind") and la.get("kind") in ("place", "arg") and \
                    la.get("local", la.get("n")) == lo.get("local", lo.get("n")) and fields(la) == fields(lo)
                rep.ob("R34.8", f"{tag}: Component.language is the language whose marker was used", same_lang,
                       f"stored {desc(la)} vs used {desc(lo)}", f.loc(bb))
    # Component is only built from a parsed file
    builders = [f for f in c.fns.values() if f.aggregates("Component") and
                not mir.suffix_match(mir.norm(f.d.get("trait") or ""), "Clone")]
    for f in builders:
        rep.ob("R34.8", f"Component built in {owner_name(f)} after parsing its configuration", bool(f.calls(PARSE)),
               "a Component (whose stored text is re-parsed for lang config) is built without parse_test_config", f.loc())
    rep.floor("R34.8", "functions constructing Component", len(builders), 1)


# ---------------------------------------------------------------------------------------------- R34.9
def r_markers(rep, c):
    # (a) every implementation returns None or Some(literal ending in '@')
    impls = [f for f in c.fns.values() if f.npath.endswith("::" + PREFIX_FN) and f.d.get("self_ty")]
    rep.floor("R34.9", "implementations of comment_prefix_for_test_config", len(impls), 9)
    marker_of = {}
    for f in impls:
        rep.saw(f)
        ty = f.d["self_ty"].replace("crate::", "")
        somes = f.aggregates("Option", "Some")
        nones = f.aggregates("Option", "None")
        lits = []
        for bb, i, rv, s in somes:
            o = f.origin(rv["ops"][0])
            lits.append(o.get("s") if o.get("kind") == "const" else None)
        if somes and not nones and len(set(lits)) == 1 and lits[0] is not None:
            marker_of[ty] = lits[0]
        elif nones and not somes:
            marker_of[ty] = None
        else:
            marker_of[ty] = "?"
        rep.ob("R34.9", f"{ty}: marker is a fixed literal (or None)", marker_of[ty] != "?", f"Some literals {lits}, None sites {len(nones)}", f.loc())
    # (b) extension -> Language variant (parse_component) -> object type (Language::obj) -> marker
    pc = synq.find_fn(LIB, "parse_component")
    ext_tbl = None
    for n in synq.walk(pc.body):
        if n.get("k") == "match":
            arms = synq.arms(n)
            if sum(1 for a in arms for p in a.alts if p.get("k") == "p_lit" and p["lit"].get("k") == "str") >= 3:
                ext_tbl = arms
                break
    if ext_tbl is None:
        raise mir.AnchorMissing("extension table (match on string literals) in parse_component")
    obj = synq.find_fn(LIB, "obj", self_ty="Language")
    om = synq.find_match(obj.body, "Language::")
    rows = 0
    for a in ext_tbl:
        for p in a.alts:
            if not (p.get("k") == "p_lit" and p["lit"].get("k") == "str"):
                continue
            ext = p["lit"]["v"]
            rows += 1
            body = a.body
            while body.get("k") == "block" and len(body["stmts"]) == 1 and body["stmts"][0]["k"] == "expr_stmt":
                body = body["stmts"][0]["e"]
            lang = body.get("path") if body.get("k") == "path" else None
            oa = synq.arm_for(om, lang) if lang else None
            obj_ty = None
            if oa is not None and "_" not in oa.heads:
                e = oa.body
                while e.get("k") in ("ref", "paren"):
                    e = e["e"]
                if e.get("k") == "path":
                    obj_ty = e["path"]
            got = marker_of.get(obj_ty, "?") if obj_ty else "?"
            want = EXT_COMMENT.get(ext)
            rep.ob("R34.9", f"*.{ext} files: marker is the file type's line comment followed by `@`",
                   want is not None and got == want + "@",
                   f".{ext} -> {lang} -> {obj_ty} -> marker {got!r}, expected {(want + '@') if want else 'an entry in EXT_COMMENT'!r}",
                   pc.loc(a.node))
    rep.floor("R34.9", "file extensions mapped to a language", rows, 8)
    for ext in EXT_COMMENT:
        rep.ob("R34.9", f"*.{ext} files are recognised by extension", any(
            p.get("k") == "p_lit" and p["lit"].get("v") == ext for a in ext_tbl for p in a.alts), "no arm for this extension", pc.loc())
