"""C01 — the shared ABI generator's type -> instruction tables agree with the canonical ABI and with each other."""
from lib import mir, synq
from lib.synq import render

ABI = "crates/core/src/abi.rs"

CLAIM = dict(
    level="other", engine="synfacts+mirfacts", design="DESIGN.md §5 C01",
    technique="match-table extraction over the syntax tree of abi.rs compared with the canonical-ABI tables; "
              "sibling-expression agreement between writer / reader / deallocator",
    text="Decides that the WIT-type -> instruction tables of lower/lift/write_to_memory/read_from_memory equal the "
         "canonical ABI's flattening and load/store tables (width and signedness), that lower/lift and write/read "
         "mirror each other kind by kind, and that sibling sites agree on slot offsets, tag widths, strides and "
         "discriminant numbering. Values, SizeAlign and backends are not decided.",
    note="syn")

SCALARS = ["Bool", "S8", "U8", "S16", "U16", "S32", "U32", "S64", "U64", "Char", "F32", "F64"]
LOWER = {"Bool": "I32FromBool", "S8": "I32FromS8", "U8": "I32FromU8", "S16": "I32FromS16", "U16": "I32FromU16",
         "S32": "I32FromS32", "U32": "I32FromU32", "S64": "I64FromS64", "U64": "I64FromU64", "Char": "I32FromChar",
         "F32": "CoreF32FromF32", "F64": "CoreF64FromF64", "String": "StringLower", "ErrorContext": "ErrorContextLower"}
LIFT = {"Bool": "BoolFromI32", "S8": "S8FromI32", "U8": "U8FromI32", "S16": "S16FromI32", "U16": "U16FromI32",
        "S32": "S32FromI32", "U32": "U32FromI32", "S64": "S64FromI64", "U64": "U64FromI64", "Char": "CharFromI32",
        "F32": "F32FromCoreF32", "F64": "F64FromCoreF64", "String": "StringLift", "ErrorContext": "ErrorContextLift"}
# canonical ABI store()/load(): width and (for loads) the type's own signedness
STORE = {"Bool": "I32Store8", "U8": "I32Store8", "S8": "I32Store8", "U16": "I32Store16", "S16": "I32Store16",
         "U32": "I32Store", "S32": "I32Store", "Char": "I32Store", "U64": "I64Store", "S64": "I64Store",
         "F32": "F32Store", "F64": "F64Store", "ErrorContext": "I32Store"}
LOAD = {"Bool": "I32Load8U", "U8": "I32Load8U", "S8": "I32Load8S", "U16": "I32Load16U", "S16": "I32Load16S",
        "U32": "I32Load", "S32": "I32Load", "Char": "I32Load", "U64": "I64Load", "S64": "I64Load",
        "F32": "F32Load", "F64": "F64Load", "ErrorContext": "I32Load"}
HANDLE_KINDS = ["Future", "Stream", "Handle"]
# kind -> (lower instruction, lift instruction)
KIND_PAIR = {"Record": ("RecordLower", "RecordLift"), "Tuple": ("TupleLower", "TupleLift"),
             "Flags": ("FlagsLower", "FlagsLift"), "Variant": ("VariantLower", "VariantLift"),
             "Enum": ("EnumLower", "EnumLift"), "Option": ("OptionLower", "OptionLift"),
             "Result": ("ResultLower", "ResultLift"), "Handle": ("HandleLower", "HandleLift"),
             "Future": ("FutureLower", "FutureLift"), "Stream": ("StreamLower", "StreamLift"),
             "Map": ("MapLower", "MapLift"), "FixedLengthList": ("FixedLengthListLower", "FixedLengthListLift")}
INTREPR_LOAD = {"U8": "I32Load8U", "U16": "I32Load16U", "U32": "I32Load", "U64": "I64Load"}
INTREPR_STORE = {"U8": "I32Store8", "U16": "I32Store16", "U32": "I32Store", "U64": "I64Store"}


def instr_variants():
    c = mir.load("ws", "wit_bindgen_core", "rlib")
    return [v["name"] for v in c.adt("abi::Instruction")["variants"]]


def emitted(node, variants):
    return [n for n, _ in synq.constructed(node, variants)]


def self_calls(node):
    return [m["method"] for m in synq.method_calls(node) if render(m["recv"]) == "self"]


def type_tables(fn):
    """(outer match on Type, inner match on TypeDefKind)"""
    outer = synq.find_match(fn.body, "Type::")
    idarm = synq.arm_for(outer, "Type::Id")
    inner = synq.find_match(idarm.body, "TypeDefKind::")
    return outer, inner


def run(rep, tier):
    rep.describe(
        "other",
        "Structural clauses of C01 decided on the syntax tree of crates/core/src/abi.rs: the scalar flattening table "
        "(lower/lift), the memory access table (width + signedness), the lower/lift and write/read mirrors per "
        "TypeDefKind, and agreement of sibling expressions (list pointer/length slots, variant tag width and payload "
        "offset, flags stride, map value offset, discriminant numbering, zero padding). NOT decided: any value-level "
        "behaviour, SizeAlign (wit-parser), the canonical/element-wise list choice, what backends do with the "
        "instructions.",
        trusted_base=["syn parse of abi.rs", "canonical ABI tables transcribed in rules/C01.py (CanonicalABI.md: "
                      "flatten_type, load, store, lower_flat, lift_flat)", "wit-parser SizeAlign"],
    )
    V = instr_variants()
    rep.saw(file=ABI)
    fns = {n: synq.find_fn(ABI, n, self_ty="Generator") for n in
           ("lower", "lift", "write_to_memory", "read_from_memory", "load_intrepr", "store_intrepr",
            "lower_variant_arms", "flat_for_each_variant_arm", "write_variant_arms_to_memory",
            "read_variant_arms_from_memory", "deallocate_indirect_variant", "write_list_to_memory",
            "read_list_from_memory", "deallocate_indirect", "deallocate", "lower_and_emit", "emit_and_lift",
            "write_fields_to_memory", "read_fields_from_memory", "deallocate_indirect_fields", "call")}
    for f in fns.values():
        rep.saw(f"{ABI}::{f.name}")

    # ---------------- R1.1 scalar tables
    def r11():
        lo, lo_in = type_tables(fns["lower"])
        li, li_in = type_tables(fns["lift"])
        for t in SCALARS + ["String", "ErrorContext"]:
            a = synq.arm_for(lo, "Type::" + t)
            got = emitted(a.body, V) if a and "_" not in a.heads else None
            rep.ob("R1.1", f"lower: Type::{t} => {LOWER[t]}", got == [LOWER[t]],
                   f"arm emits {got}", fns["lower"].loc(a.node if a else None))
            b = synq.arm_for(li, "Type::" + t)
            got = emitted(b.body, V) if b and "_" not in b.heads else None
            rep.ob("R1.1", f"lift: Type::{t} => {LIFT[t]}", got == [LIFT[t]],
                   f"arm emits {got}", fns["lift"].loc(b.node if b else None))
    rep.guard("R1.1", "scalar tables", r11)

    # ---------------- R1.2 memory access tables
    def r12():
        wo, wi = type_tables(fns["write_to_memory"])
        ro, ri = type_tables(fns["read_from_memory"])
        for t in SCALARS + ["ErrorContext"]:
            a = synq.arm_for(wo, "Type::" + t)
            got = emitted(a.body, V) if a and "_" not in a.heads else None
            ok = got == [STORE[t]] and "lower_and_emit" in self_calls(a.body)
            rep.ob("R1.2", f"write_to_memory: Type::{t} stores with {STORE[t]} after lowering", ok,
                   f"arm constructs {got}, self-calls {self_calls(a.body) if a else None}", fns["write_to_memory"].loc(a.node if a else None))
            b = synq.arm_for(ro, "Type::" + t)
            got = emitted(b.body, V) if b and "_" not in b.heads else None
            ok = got == [LOAD[t]] and "emit_and_lift" in self_calls(b.body)
            rep.ob("R1.2", f"read_from_memory: Type::{t} loads with {LOAD[t]} then lifts", ok,
                   f"arm constructs {got}", fns["read_from_memory"].loc(b.node if b else None))
        for k in HANDLE_KINDS:
            a = synq.arm_for(wi, "TypeDefKind::" + k)
            got = emitted(a.body, V) if a else None
            rep.ob("R1.2", f"write_to_memory: TypeDefKind::{k} stores a 32-bit handle (I32Store)",
                   got == ["I32Store"] and "lower_and_emit" in self_calls(a.body), f"{got}", fns["write_to_memory"].loc(a.node if a else None))
            b = synq.arm_for(ri, "TypeDefKind::" + k)
            got = emitted(b.body, V) if b else None
            rep.ob("R1.2", f"read_from_memory: TypeDefKind::{k} loads a 32-bit handle (I32Load)",
                   got == ["I32Load"] and "emit_and_lift" in self_calls(b.body), f"{got}", fns["read_from_memory"].loc(b.node if b else None))
        for t, fn in (("String", "write_list_to_memory"),):
            a = synq.arm_for(wo, "Type::String")
            rep.ob("R1.2", "write_to_memory: Type::String goes through write_list_to_memory",
                   self_calls(a.body) == ["write_list_to_memory"], "", fns["write_to_memory"].loc(a.node))
            b = synq.arm_for(ro, "Type::String")
            rep.ob("R1.2", "read_from_memory: Type::String goes through read_list_from_memory",
                   self_calls(b.body) == ["read_list_from_memory"], "", fns["read_from_memory"].loc(b.node))
        for k in ("List", "Map"):
            a = synq.arm_for(wi, "TypeDefKind::" + k)
            b = synq.arm_for(ri, "TypeDefKind::" + k)
            rep.ob("R1.2", f"write/read: TypeDefKind::{k} use the list pointer+length layout on both sides",
                   self_calls(a.body) == ["write_list_to_memory"] and self_calls(b.body) == ["read_list_from_memory"],
                   f"{self_calls(a.body)} / {self_calls(b.body)}", fns["write_to_memory"].loc(a.node))
        # lower_and_emit / emit_and_lift helper shapes: lower ; push addr ; emit   |   push addr ; emit ; lift
        le = self_calls(fns["lower_and_emit"].body)
        el = self_calls(fns["emit_and_lift"].body)
        rep.ob("R1.2", "lower_and_emit = lower, then emit the store", le == ["lower", "emit"], f"{le}", fns["lower_and_emit"].loc())
        rep.ob("R1.2", "emit_and_lift = emit the load, then lift", el == ["emit", "lift"], f"{el}", fns["emit_and_lift"].loc())
    rep.guard("R1.2", "memory access tables", r12)

    # ---------------- R1.3 intrepr tables
    def r13():
        for fn, table in (("load_intrepr", INTREPR_LOAD), ("store_intrepr", INTREPR_STORE)):
            m = synq.find_match(fns[fn].body, "Int::")
            for w, ins in table.items():
                a = synq.arm_for(m, "Int::" + w)
                got = emitted(a.body, V) if a and "_" not in a.heads else None
                rep.ob("R1.3", f"{fn}: Int::{w} => {ins}", got == [ins], f"{got}", fns[fn].loc(a.node if a else None))
    rep.guard("R1.3", "intrepr tables", r13)

    # ---------------- R1.4 mirrors
    def r14():
        _, lo_in = type_tables(fns["lower"])
        _, li_in = type_tables(fns["lift"])
        _, wi = type_tables(fns["write_to_memory"])
        _, ri = type_tables(fns["read_from_memory"])
        for k, (lw, lf) in KIND_PAIR.items():
            a = synq.arm_for(lo_in, "TypeDefKind::" + k)
            b = synq.arm_for(li_in, "TypeDefKind::" + k)
            ga = emitted(a.body, V) if a else []
            gb = emitted(b.body, V) if b else []
            rep.ob("R1.4", f"lower/lift mirror: TypeDefKind::{k} => {lw} / {lf}",
                   lw in ga and lf in gb and lf not in ga and lw not in gb, f"lower emits {ga}, lift emits {gb}",
                   fns["lower"].loc(a.node if a else None))
        # List: canonical vs element-wise on both sides under the same predicate
        a = synq.arm_for(lo_in, "TypeDefKind::List")
        b = synq.arm_for(li_in, "TypeDefKind::List")
        ga, gb = emitted(a.body, V), emitted(b.body, V)
        rep.ob("R1.4", "lower/lift mirror: List => ListCanonLower|ListLower / ListCanonLift|ListLift",
               "ListCanonLower" in ga and "ListLower" in ga and "ListCanonLift" in gb and "ListLift" in gb, f"{ga} / {gb}",
               fns["lower"].loc(a.node))
        ca = [render(m) for m in synq.method_calls(a.body, "is_list_canonical")]
        cb = [render(m) for m in synq.method_calls(b.body, "is_list_canonical")]
        rep.ob("R1.4", "lower/lift: the canonical-list predicate is the same expression on both sides",
               len(ca) == 1 and ca == cb, f"{ca} vs {cb}", fns["lift"].loc(b.node))
        # TypeDefKind::Type recurses in all four
        for nm, tbl in (("lower", lo_in), ("lift", li_in), ("write_to_memory", wi), ("read_from_memory", ri)):
            a = synq.arm_for(tbl, "TypeDefKind::Type")
            rep.ob("R1.4", f"{nm}: TypeDefKind::Type(t) recurses into {nm}", a is not None and self_calls(a.body) == [nm],
                   f"{self_calls(a.body) if a else None}", fns[nm].loc(a.node if a else None))
        # write/read mirror for aggregate kinds
        WR = {"Record": ("RecordLower", "write_fields_to_memory", "RecordLift", "read_fields_from_memory"),
              "Tuple": ("TupleLower", "write_fields_to_memory", "TupleLift", "read_fields_from_memory"),
              "Variant": ("VariantLower", "write_variant_arms_to_memory", "VariantLift", "read_variant_arms_from_memory"),
              "Option": ("OptionLower", "write_variant_arms_to_memory", "OptionLift", "read_variant_arms_from_memory"),
              "Result": ("ResultLower", "write_variant_arms_to_memory", "ResultLift", "read_variant_arms_from_memory"),
              "FixedLengthList": ("FixedLengthListLowerToMemory", "write_to_memory", "FixedLengthListLiftFromMemory", "read_from_memory")}
        for k, (wins, wcall, rins, rcall) in WR.items():
            a = synq.arm_for(wi, "TypeDefKind::" + k)
            b = synq.arm_for(ri, "TypeDefKind::" + k)
            ok = a is not None and b is not None and wins in emitted(a.body, V) and wcall in self_calls(a.body) and \
                rins in emitted(b.body, V) and rcall in self_calls(b.body)
            rep.ob("R1.4", f"write/read mirror: TypeDefKind::{k} => {wins}+{wcall} / {rcall}+{rins}", ok,
                   f"write: {emitted(a.body, V) if a else None} {self_calls(a.body) if a else None}; read: "
                   f"{emitted(b.body, V) if b else None} {self_calls(b.body) if b else None}", fns["write_to_memory"].loc(a.node if a else None))
        for k in ("Enum",):
            a = synq.arm_for(wi, "TypeDefKind::" + k)
            b = synq.arm_for(ri, "TypeDefKind::" + k)
            ta = [render(m["args"][1]) for m in synq.method_calls(a.body, "store_intrepr")]
            tb = [render(m["args"][1]) for m in synq.method_calls(b.body, "load_intrepr")]
            rep.ob("R1.4", "write/read mirror: Enum stores/loads its tag() width after lower / before lift",
                   ta == ["e.tag()"] and tb == ["e.tag()"] and self_calls(a.body)[0] == "lower" and self_calls(b.body)[-1] == "lift",
                   f"{ta} {tb} {self_calls(a.body)} {self_calls(b.body)}", fns["write_to_memory"].loc(a.node))
    rep.guard("R1.4", "mirrors", r14)

    # ---------------- R1.5 sibling expressions (parameter names canonicalised by declared type, see synq.param_roles)
    def R(f, e, extra=None):
        return render(e, synq.param_roles(f, extra))

    def RL(f, e, depth=3):
        """like R, but a plain local is first replaced by its (single) `let` initialiser"""
        while depth and e is not None and e.get("k") == "path":
            inits = [i for n_, i, st in synq.bindings(f.body) if n_ == e["path"] and i is not None and st["pat"].get("k") == "p_ident"]
            if len(inits) != 1 or e["path"] in [p_ for p_ in f.params if p_]:
                break
            e = inits[0]
            depth -= 1
        # a private same-file Generator helper whose body is one expression: substitute the arguments for its parameters
        if e is not None and e.get("k") == "mcall" and render(e["recv"]) == "self":
            hs = [g for g in synq.all_fns(ABI) if g.name == e["method"] and g.self_ty == "Generator" and g.body is not None]
            if len(hs) == 1 and len(hs[0].body.get("stmts", [])) == 1 and hs[0].body["stmts"][0].get("k") == "expr_stmt" \
                    and not hs[0].body["stmts"][0].get("semi"):
                h = hs[0]
                ps = [p_ for p_ in h.params if p_ != "self"]
                if len(ps) == len(e["args"]) and all(ps):
                    ren = dict(synq.param_roles(f))
                    sub = {p_: render(a, ren) for p_, a in zip(ps, e["args"])}
                    return render(h.body["stmts"][0]["e"], sub)
        return R(f, e)

    def arm_roles(arm):
        """names bound positionally by a `TypeDefKind::X(a, b)` arm pattern -> $b0, $b1"""
        ren = {}
        for alt in arm.alts:
            if alt.get("k") == "p_tuple_struct":
                for i, e in enumerate(alt["elems"]):
                    if e.get("k") == "p_ident":
                        ren[e["name"]] = f"$b{i}"
        return ren

    def r15():
        # (i) list pointer / length slots at the five sites
        lens, ptrs = [], []
        gens = {g.name: g for g in synq.all_fns(ABI) if g.self_ty == "Generator" and g.body is not None}
        walkers = set(fns) | {"emit", "call", "lower", "lift", "deallocate"}

        def with_helpers(f):
            """f and the private Generator helpers it delegates to (transitively; the big walkers are not helpers)"""
            out, todo, seen = [f], [f], {f.name}
            while todo:
                g = todo.pop()
                for mc in synq.method_calls(g.body):
                    m_ = mc["method"]
                    if render(mc["recv"]) == "self" and m_ in gens and m_ not in walkers and m_ not in seen:
                        seen.add(m_)
                        out.append(gens[m_])
                        todo.append(gens[m_])
            return out
        for nm in ("write_list_to_memory", "read_list_from_memory", "deallocate_indirect"):
            nl, np_ = len(lens), len(ptrs)
            for f in with_helpers(fns[nm]):
                for n, node in synq.constructed(f.body, ("LengthStore", "LengthLoad")):
                    off = [x for x in node.get("fields", []) if x["name"] == "offset"]
                    lens.append((f.name, n, RL(f, off[0]["e"]) if off else None, node))
                for n, node in synq.constructed(f.body, ("PointerStore", "PointerLoad")):
                    off = [x for x in node.get("fields", []) if x["name"] == "offset"]
                    ptrs.append((f.name, n, RL(f, off[0]["e"]) if off else None, node))
            # structural minimum: each of the three walkers touches the length slot and the pointer slot somewhere
            rep.floor("R1.5", f"list length-slot sites reachable from {nm}", len(lens) - nl, 1)
            rep.floor("R1.5", f"list pointer-slot sites reachable from {nm}", len(ptrs) - np_, 1)
        for nm, n, off, node in lens:
            rep.ob("R1.5", f"{nm}: {n} uses offset + align(ty)", off == "($offset + self.bindgen.sizes().align($ty).into())",
                   f"offset expression is `{off}`", f"{ABI}:{synq.line(node)}")
        for nm, n, off, node in ptrs:
            rep.ob("R1.5", f"{nm}: {n} uses the base offset", off == "$offset", f"offset expression is `{off}`",
                   f"{ABI}:{synq.line(node)}")
        # (ii) variant helpers: payload offset + tag access
        for nm, acc in (("write_variant_arms_to_memory", "store_intrepr"), ("read_variant_arms_from_memory", "load_intrepr"),
                        ("deallocate_indirect_variant", "load_intrepr")):
            f = fns[nm]
            po = [(n_, i) for n_, i, st in synq.bindings(f.body) if i is not None and synq.method_calls(i, "payload_offset")]
            ok = False
            pname = None
            if len(po) == 1:
                pname, init = po[0]
                pc = synq.method_calls(init, "payload_offset")[0]
                # the case list handed to payload_offset is the helper's own `cases` parameter (all cases, unfiltered):
                # the payload offset is max alignment over ALL payloads, whatever this walker does with each case
                roles = synq.param_roles(f)
                case_params = [nm for nm, r in roles.items() if r.startswith("$p")]
                shadowed = [nm for nm, i_, st_ in synq.bindings(f.body) if nm in roles]
                arg1 = R(f, pc["args"][1]) if len(pc["args"]) == 2 else None
                ok = init.get("k") == "binary" and init["op"] == "+" and R(f, init["l"]) == "$offset" and \
                    R(f, pc["recv"]) == "self.bindgen.sizes()" and R(f, pc["args"][0]) == "$tag" and len(pc["args"]) == 2 \
                    and len(case_params) == 1 and arg1 in (roles[case_params[0]], roles[case_params[0]] + ".clone()") \
                    and not shadowed
            rep.ob("R1.5", f"{nm}: payload offset = offset + sizes.payload_offset(tag, cases)", ok,
                   f"{[R(f, i) for _, i in po]}", f.loc())
            tg = [R(f, m["args"]) for m in synq.method_calls(f.body, acc)]
            rep.ob("R1.5", f"{nm}: discriminant accessed with {acc}(offset, tag)", tg == ["$offset, $tag"], f"{tg}", f.loc())
            rec = {"write_variant_arms_to_memory": "write_to_memory", "read_variant_arms_from_memory": "read_from_memory",
                   "deallocate_indirect_variant": "deallocate_indirect"}[nm]
            ra = [[render(a) for a in m["args"]] for m in synq.method_calls(f.body, rec)]
            rep.ob("R1.5", f"{nm}: payload handled at the payload offset", len(ra) == 1 and pname is not None and pname in ra[0],
                   f"{ra}", f.loc())
        # (iii) tag widths at the 3x3 call sites
        want = {"Variant": ".tag()", "Option": "Int::U8", "Result": "Int::U8"}
        nsites = 0
        for nm, helper in (("write_to_memory", "write_variant_arms_to_memory"), ("read_from_memory", "read_variant_arms_from_memory"),
                           ("deallocate_indirect", "deallocate_indirect_variant")):
            _, tbl = type_tables(fns[nm])
            for k, w in want.items():
                a = synq.arm_for(tbl, "TypeDefKind::" + k)
                calls = synq.method_calls(a.body, helper) if a else []
                nsites += len(calls)
                tagarg = render(calls[0]["args"][2], arm_roles(a)) if calls else None
                ok = tagarg is not None and (tagarg == w or (w == ".tag()" and tagarg == "$b0.tag()"))
                rep.ob("R1.5", f"{nm}: TypeDefKind::{k} passes tag width {w} to {helper}", ok, f"passes `{tagarg}`",
                       fns[nm].loc(a.node if a else None))
        rep.floor("R1.5", "variant helper call sites", nsites, 9)
        # (iv) flags U32(n): stride i*4, write reversed, read forward
        _, wi = type_tables(fns["write_to_memory"])
        _, ri = type_tables(fns["read_from_memory"])
        fa = synq.arm_for(wi, "TypeDefKind::Flags")
        fb = synq.arm_for(ri, "TypeDefKind::Flags")
        wfor = [n for n in synq.walk(fa.body) if n.get("k") == "for"]
        rfor = [n for n in synq.walk(fb.body) if n.get("k") == "for"]
        rep.ob("R1.5", "flags: one word loop on each side", len(wfor) == 1 and len(rfor) == 1, "", fns["write_to_memory"].loc(fa.node))
        if len(wfor) == 1 and len(rfor) == 1:
            def loop_shape(fn_, lp, ins):
                var = lp["pat"].get("name")
                it = lp["iter"]
                rev = it.get("k") == "mcall" and it["method"] == "rev"
                rng = it["recv"] if rev else it
                fwd_ok = rng.get("k") == "range" and render(rng.get("start")) == "0" and rng.get("limits") == ".."
                offs = [render(x["e"], dict(synq.param_roles(fn_), **{var: "$i"})) for n_, node in synq.constructed(lp, [ins])
                        for x in node.get("fields", []) if x["name"] == "offset"]
                return rev, fwd_ok, render(rng.get("end")), offs
            wrev, wok, wend, wo = loop_shape(fns["write_to_memory"], wfor[0], "I32Store")
            rrev, rok, rend, ro = loop_shape(fns["read_from_memory"], rfor[0], "I32Load")
            rep.ob("R1.5", "flags: write iterates words in reverse (stack order), read forward, same bounds",
                   wrev and not rrev and wok and rok and wend == rend, f"write rev={wrev} 0..{wend}; read rev={rrev} 0..{rend}",
                   fns["write_to_memory"].loc(wfor[0]))
            rep.ob("R1.5", "flags: word stride offset.add_bytes(i * 4) identical in write and read",
                   wo == ["$offset.add_bytes(($i * 4))"] and ro == wo, f"{wo} / {ro}", fns["write_to_memory"].loc(wfor[0]))
        for w_ in ("U8", "U16"):
            for nm, tbl_arm, acc in (("write_to_memory", fa, "store_intrepr"), ("read_from_memory", fb, "load_intrepr")):
                m = synq.find_match(tbl_arm.body, "FlagsRepr::", min_arms=1)
                a = synq.arm_for(m, "FlagsRepr::" + w_)
                calls_ = synq.method_calls(a.body, acc)
                args = [R(fns[nm], c["args"]) for c in calls_]
                ok_ = args == [f"$offset, Int::{w_}"]
                if not ok_ and len(calls_) == 1 and len(calls_[0]["args"]) == 2 and R(fns[nm], calls_[0]["args"][0]) == "$offset":
                    # the width may come from a same-file helper applied to the matched repr: evaluate the helper's own
                    # FlagsRepr table for this width
                    e2 = calls_[0]["args"][1]
                    if e2.get("k") == "call" and e2["func"].get("k") == "path" and len(e2["args"]) == 1 and \
                            render(e2["args"][0]).lstrip("&*") in a.binds() + [render(m["scrut"])]:
                        hs = [g for g in synq.all_fns(ABI) if g.name == synq.short(e2["func"]["path"]) and g.body is not None]
                        if len(hs) == 1:
                            hm = synq.find_match(hs[0].body, "FlagsRepr::", min_arms=1)
                            ha = synq.arm_for(hm, "FlagsRepr::" + w_)
                            hb = ha.body if ha else None
                            while hb is not None and hb.get("k") == "block" and len(hb["stmts"]) == 1 and hb["stmts"][0].get("k") == "expr_stmt":
                                hb = hb["stmts"][0]["e"]
                            if ha is not None and ha.guard is None and "FlagsRepr::" + w_ in [h_ for h_ in ha.heads] and render(hb) == f"Int::{w_}":
                                ok_ = True
                                args = [f"$offset, {render(e2)} -> Int::{w_}"]
                rep.ob("R1.5", f"{nm}: FlagsRepr::{w_} accessed as Int::{w_}", ok_, f"{args}",
                       fns[nm].loc(a.node))
        # (v) map value offset identical in lower, lift, deallocate; key at 0, value at that offset
        vo = {}
        for nm, rec in (("lower", "write_to_memory"), ("lift", "read_from_memory"), ("deallocate", "deallocate_indirect")):
            _, tbl = type_tables(fns[nm])
            a = synq.arm_for(tbl, "TypeDefKind::Map")
            ren = arm_roles(a)
            cands = [(n_, i) for n_, i, st in synq.bindings(a.body) if i is not None and synq.method_calls(i, "field_offsets")]
            vo[nm] = [render(i, ren) for _, i in cands]
            vname = cands[0][0] if len(cands) == 1 else None
            ra = [[render(x, ren) for x in m["args"]] for m in synq.method_calls(a.body, rec)]
            ok = len(ra) == 2 and ra[0][0] == "$b0" and "Default::default()" in ra[0] and ra[1][0] == "$b1" and vname in ra[1]
            rep.ob("R1.5", f"{nm}: map entry = key at offset 0, value at the value offset", ok, f"{ra}", fns[nm].loc(a.node))
        rep.ob("R1.5", "map: value offset = sizes.field_offsets([key, value])[1].0 in lower, lift and deallocate",
               all(v == ["self.bindgen.sizes().field_offsets([$b0, $b1])[1].0"] for v in vo.values()), f"{vo}",
               fns["lower"].loc())
        # (vi) fields walk: write/read/dealloc all iterate sizes().field_offsets(tys) and add the field offset
        for nm, rec, pos in (("write_fields_to_memory", "write_to_memory", 2), ("read_fields_from_memory", "read_from_memory", 2),
                             ("deallocate_indirect_fields", "deallocate_indirect", 2)):
            f = fns[nm]
            fo = [R(f, m) for m in synq.method_calls(f.body, "field_offsets")]
            loops = [n for n in synq.walk(f.body) if n.get("k") == "for"]
            bound = {b["name"] for lp in loops for b in synq.walk(lp["pat"]) if b.get("k") == "p_ident"}
            ok2 = False
            for m in synq.method_calls(f.body, rec):
                a = m["args"][pos]
                if a.get("k") == "binary" and a["op"] == "+" and R(f, a["l"]) == "$offset":
                    r_ = a["r"]
                    while r_.get("k") == "unary" and r_["op"] == "*":
                        r_ = r_["e"]
                    ok2 = r_.get("k") == "path" and r_["path"] in bound
            rep.ob("R1.5", f"{nm}: every field handled at offset + field_offsets(tys)[i]",
                   fo == ["self.bindgen.sizes().field_offsets($p1)"] and ok2, f"{fo}", f.loc())
        # parameter record walk in `call`: align_to_arch(offset, align(ty)) then += size(ty), twice
        cf = fns["call"]
        al = [render(m) for m in synq.fn_calls(cf.body, "align_to_arch")]
        rep.ob("R1.5", "call: both parameter-record walks align with align_to_arch(offset, sizes.align(ty))",
               len(al) == 2 and len(set(al)) == 1 and ".bindgen.sizes().align(ty)" in al[0], f"{al}", cf.loc())
        adv = [render(n) for n in synq.walk(cf.body) if n.get("k") == "binary" and n["op"] == "+=" and ".size(ty)" in render(n)]
        rep.ob("R1.5", "call: both parameter-record walks advance by sizes.size(ty)", len(adv) == 2 and len(set(adv)) == 1,
               f"{adv}", cf.loc())
        # order inside each parameter-record loop: align the running offset for THIS parameter, access it there, then
        # advance by its size (aligning after the advance, or with the previous parameter's alignment, misplaces every
        # parameter that needs padding in front of it)
        loops = []
        for lp in (n for n in synq.walk(cf.body) if n.get("k") == "for"):
            al_ = [m for m in synq.fn_calls(lp["body"], "align_to_arch")]
            if al_:
                loops.append((lp, al_))
        rep.ob("R1.5", "call: two parameter-record loops (lower to memory / lift from memory)", len(loops) == 2, f"{len(loops)}", cf.loc())
        for lp, al_ in loops:
            acc = [m for m in synq.method_calls(lp["body"], ["write_to_memory", "read_from_memory"])]
            adv_ = [n for n in synq.walk(lp["body"]) if n.get("k") == "binary" and n["op"] == "+=" and ".size(" in render(n)]
            which = acc[0]["method"] if acc else "?"
            pos = lambda n: (n["sp"][0], n["sp"][1])
            ok = len(al_) == 1 and len(acc) == 1 and len(adv_) == 1 and pos(al_[0]) < pos(acc[0]) < pos(adv_[0])
            # all three talk about the loop's own parameter type
            tyvars = {b_["name"] for b_ in synq.walk(lp["pat"]) if b_.get("k") == "p_ident"}
            same = ok and any(render(al_[0]["args"][1]).endswith(f".align({t})") and render(acc[0]["args"][0]) == t and
                              render(adv_[0]["r"]).endswith(f".size({t})") for t in tyvars)
            rep.ob("R1.5", f"call ({which} loop): offset is aligned for the parameter, then the parameter is accessed, then the offset advances by its size",
                   ok and same, f"align at {[pos(x) for x in al_]}, access at {[pos(x) for x in acc]}, advance at {[pos(x) for x in adv_]}",
                   cf.loc(lp))
    rep.guard("R1.5", "sibling expressions", r15)

    # ---------------- R1.6 discriminants / padding / casts
    def zip_cast_shape(f):
        """for (a, b) in X.iter().zip(&Y[1..]) { .. cast(*?, *?) .. } -> (X, Y, order) with order 'ab' or 'ba'"""
        for lp in (n for n in synq.walk(f.body) if n.get("k") == "for"):
            it = lp["iter"]
            if it.get("k") == "mcall" and it["method"] == "zip" and lp["pat"].get("k") == "p_tuple":
                names = [e.get("name") for e in lp["pat"]["elems"]]
                x = render(it["recv"])
                y = render(it["args"][0])
                cs = synq.fn_calls(lp, "cast")
                if len(cs) == 1 and len(names) == 2:
                    got = [render(a).lstrip("*") for a in cs[0]["args"]]
                    order = "ab" if got == names else "ba" if got == names[::-1] else "?"
                    return x, y, order
        # the same pairing written as an adaptor: X.iter().zip(&Y[1..]).map(|(a, b)| cast(*?, *?))
        for mc in synq.method_calls(f.body, "map"):
            it = mc["recv"]
            cl = mc["args"][0] if mc["args"] and mc["args"][0].get("k") == "closure" else None
            if cl is None or not (it.get("k") == "mcall" and it["method"] == "zip"):
                continue
            prm = cl["params"][0] if len(cl["params"]) == 1 else None
            if prm is None or prm.get("k") != "p_tuple":
                continue
            names = [e.get("name") for e in prm["elems"]]
            cs = synq.fn_calls(cl["body"], "cast")
            if len(cs) == 1 and len(names) == 2:
                got = [render(a).lstrip("*") for a in cs[0]["args"]]
                order = "ab" if got == names else "ba" if got == names[::-1] else "?"
                return render(it["recv"]), render(it["args"][0]), order
        return None

    def let_in_loop(f, name):
        """is `let name = flat_types(..)` located inside a for loop (a per-case temporary)?"""
        for lp in (n for n in synq.walk(f.body) if n.get("k") == "for"):
            for n_, i, st in synq.bindings(lp["body"]):
                if n_ == name and i is not None and synq.fn_calls(i, "flat_types"):
                    return True
        return False

    def flat_of(f, name):
        """initialiser of `let name = flat_types(self.resolve, <arg>, None)..` -> rendered <arg> with roles"""
        for n_, i, st in synq.bindings(f.body):
            if n_ == name and i is not None:
                cs = synq.fn_calls(i, "flat_types")
                if cs:
                    return R(f, cs[0]["args"][1])
        return None

    def r16():
        for nm in ("lower_variant_arms", "write_variant_arms_to_memory"):
            f = fns[nm]
            loops = [n for n in synq.walk(f.body) if n.get("k") == "for"]
            ok = False
            for lp in loops:
                it = lp["iter"]
                consts = [node for n_, node in synq.constructed(lp, ["I32Const"])]
                if it.get("k") == "mcall" and it["method"] == "enumerate" and consts:
                    pat = lp["pat"]
                    first = pat["elems"][0]["name"] if pat.get("k") == "p_tuple" and pat["elems"][0].get("k") == "p_ident" else None
                    val = [render(x["e"]) for x in consts[0].get("fields", []) if x["name"] == "val"]
                    src = it["recv"]
                    ok = src.get("k") == "mcall" and src["method"] == "into_iter" and first is not None and \
                        val == [f"({first} as i32)"]
            rep.ob("R1.6", f"{nm}: discriminant constant is the case index from enumerate() over the cases", ok, "", f.loc())
        f = fns["lower_variant_arms"]
        sh = zip_cast_shape(f)
        ok = False
        if sh:
            x, y, order = sh
            xs = x[:-len(".iter()")] if x.endswith(".iter()") else x
            ys = y[1:-len("[1..]")] if y.startswith("&") and y.endswith("[1..]") else None
            ok = order == "ab" and ys is not None and flat_of(f, ys) == "$ty" and not let_in_loop(f, ys) and let_in_loop(f, xs)
            cz = [render(x_["e"]) for n_, node in synq.constructed(f.body, ["ConstZero"]) for x_ in node.get("fields", [])]
            rep.ob("R1.6", "lower_variant_arms: missing slots padded with ConstZero over the remaining joined types",
                   len(cz) == 1 and cz[0].startswith("&" + (ys or "?") + "[") and cz[0].endswith("..]"), f"{cz}", f.loc())
        rep.ob("R1.6", "lower_variant_arms: cast(payload type -> joined type), zipped against joined[1..] (discriminant skipped)",
               ok, f"{sh}", f.loc())
        g = fns["flat_for_each_variant_arm"]
        sh = zip_cast_shape(g)
        ok = False
        if sh:
            x, y, order = sh
            xs = x[:-len(".iter()")] if x.endswith(".iter()") else x
            ys = y[1:-len("[1..]")] if y.startswith("&") and y.endswith("[1..]") else None
            ok = order == "ba" and ys is not None and flat_of(g, ys) == "$ty" and not let_in_loop(g, ys) and let_in_loop(g, xs)
            bi = [render(i) for n_, i, st in synq.bindings(g.body) if i is not None and synq.method_calls(i, "drain")]
            rep.ob("R1.6", "flat_for_each_variant_arm: payload operands are the slots after the discriminant",
                   len(bi) == 1 and "+ 1" in bi[0] and f"{ys}.len()" in bi[0], f"{bi}", g.loc())
        rep.ob("R1.6", "flat_for_each_variant_arm: cast(joined type -> payload type), the dual of lowering, joined[1..]",
               ok, f"{sh}", g.loc())
    rep.guard("R1.6", "discriminants and padding", r16)
