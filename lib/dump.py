"""Debug helper: python3 -m lib.dump <config> <crate> <fn-suffix>  — pretty-print a function's MIR facts."""
import sys, json
from . import mir

def opstr(o):
    if 'c' in o:
        if 'fn' in o: return 'fn:'+o['fn']
        if 'v' in o: return 'const %s:%s'%(o['v'],o['ty'])
        if 's' in o: return 'str %r'%o['s']
        return 'const:'+o.get('ty','?')+(' def='+o['def'] if 'def' in o else '')
    p=o.get('cp') or o.get('mv')
    return ('move ' if 'mv' in o else '')+mir.place_str(p) if p else '?'

def rvstr(rv):
    k=rv['k']
    if k=='use': return opstr(rv['o'])
    if k in('ref','rawptr'): return '&'+('mut ' if rv.get('m') else '')+mir.place_str(rv['p'])
    if k=='bin': return '%s(%s, %s)'%(rv['op'],opstr(rv['a']),opstr(rv['b']))
    if k=='un': return '%s(%s)'%(rv['op'],opstr(rv['a']))
    if k=='cast': return '%s as %s [%s]'%(opstr(rv['o']),rv['ty'],rv['ck'])
    if k=='discr': return 'discr(%s)'%mir.place_str(rv['p'])
    if k=='agg':
        n=rv.get('adt') and (rv['adt']+'::'+rv['var']) or ('tuple' if 'tuple' in rv else 'closure:'+rv.get('closure','') if 'closure' in rv else 'agg')
        return '%s{%s}'%(n, ', '.join(opstr(o) for o in rv['ops']))
    return k+':'+rv.get('d','')

def dump(f):
    print(f.path, f.file, f.line, 'argc',f.argc)
    for k,p in f.d['names'].items(): print('  name',k,mir.place_str(p))
    for b in range(f.n):
        bb=f.bbs[b]
        if bb['cl']: continue
        print('bb%d:'%b)
        for s in bb['st']:
            if s['k']=='=': print('   %s = %s   // L%d'%(mir.place_str(s['p']), rvstr(s['rv']), s['sp']['l']))
            else: print('   setdiscr %s %s'%(mir.place_str(s['p']), s['var']))
        t=bb['t']; k=t['k']
        if k=='call':
            callee=t.get('res') or t.get('fn') or ('IND '+opstr(t['ind']))
            print('   %s = call %s(%s) -> bb%s  // L%d'%(mir.place_str(t['d']), callee, ', '.join(opstr(a) for a in t['args']), t['t'], t['sp']['l']))
        elif k=='switch':
            print('   switch %s [%s] else bb%d'%(opstr(t['d']), ', '.join('%s->bb%d'%(v,tb) for v,tb in t['ts']), t['else']))
        elif k=='drop': print('   drop %s : %s -> bb%d'%(mir.place_str(t['p']), t['ty'], t['t']))
        elif k=='assert': print('   assert %s == %s -> bb%d'%(opstr(t['c']), t['e'], t['t']))
        elif k=='goto': print('   goto bb%d'%t['t'])
        else: print('   '+k)

if __name__=='__main__':
    c=mir.load(sys.argv[1], sys.argv[2], sys.argv[4] if len(sys.argv)>4 else None)
    pat=sys.argv[3]
    fs=[f for p,f in c.fns.items() if pat in p]
    for f in fs: dump(f); print()
