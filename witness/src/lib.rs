//! E3 — type-level witnesses.  Every `*_fail` item carries a `compile_fail,E0xxx`
//! doctest written as an external user of the runtime crate would write it; the
//! matching `*_twin` item differs only in the offending line and must compile, so a
//! witness cannot pass because of a wrong path or an unrelated error.
//! Run with `cargo +nightly test --doc` (stable ignores the error code).

/// C18 R18.11: an in-flight future read is `!Unpin` (its completion slot is registered by address).
/// ```compile_fail,E0277
/// fn assert_unpin<T: Unpin>() {}
/// assert_unpin::<wit_bindgen::FutureRead<u32>>();
/// ```
pub mod c18_future_read_not_unpin_fail {}
/// ```
/// fn assert_unpin<T: Unpin>() {}
/// assert_unpin::<wit_bindgen::FutureReader<u32>>();
/// ```
pub mod c18_future_read_not_unpin_twin {}

/// ```compile_fail,E0277
/// fn assert_unpin<T: Unpin>() {}
/// assert_unpin::<wit_bindgen::FutureWrite<u32>>();
/// ```
pub mod c18_future_write_not_unpin_fail {}
/// ```
/// fn assert_unpin<T: Unpin>() {}
/// assert_unpin::<wit_bindgen::FutureWriter<u32>>();
/// ```
pub mod c18_future_write_not_unpin_twin {}

/// ```compile_fail,E0277
/// fn assert_unpin<T: Unpin>() {}
/// assert_unpin::<wit_bindgen::StreamRead<'static, u32>>();
/// ```
pub mod c18_stream_read_not_unpin_fail {}
/// ```
/// fn assert_unpin<T: Unpin>() {}
/// assert_unpin::<wit_bindgen::StreamReader<u32>>();
/// ```
pub mod c18_stream_read_not_unpin_twin {}

/// ```compile_fail,E0277
/// fn assert_unpin<T: Unpin>() {}
/// assert_unpin::<wit_bindgen::StreamWrite<'static, u32>>();
/// ```
pub mod c18_stream_write_not_unpin_fail {}
/// ```
/// fn assert_unpin<T: Unpin>() {}
/// assert_unpin::<wit_bindgen::StreamWriter<u32>>();
/// ```
pub mod c18_stream_write_not_unpin_twin {}

/// C19 R19.5: a second write while a `StreamWrite` is alive is rejected (one operation per end, in order).
/// ```compile_fail,E0499
/// fn f(w: &mut wit_bindgen::StreamWriter<u32>) {
///     let a = w.write(vec![1]);
///     let b = w.write(vec![2]);
///     drop(a);
///     drop(b);
/// }
/// ```
pub mod c19_one_write_at_a_time_fail {}
/// ```
/// fn f(w: &mut wit_bindgen::StreamWriter<u32>) {
///     let a = w.write(vec![1]);
///     drop(a);
///     let b = w.write(vec![2]);
///     drop(b);
/// }
/// ```
pub mod c19_one_write_at_a_time_twin {}

/// ```compile_fail,E0499
/// fn f(r: &mut wit_bindgen::StreamReader<u32>) {
///     let a = r.read(Vec::new());
///     let b = r.read(Vec::new());
///     drop(a);
///     drop(b);
/// }
/// ```
pub mod c19_one_read_at_a_time_fail {}
/// ```
/// fn f(r: &mut wit_bindgen::StreamReader<u32>) {
///     let a = r.read(Vec::new());
///     drop(a);
///     let b = r.read(Vec::new());
///     drop(b);
/// }
/// ```
pub mod c19_one_read_at_a_time_twin {}

/// C20 R20.1: a future's writable end is consumed by `write`.
/// ```compile_fail,E0382
/// fn f(w: wit_bindgen::FutureWriter<u32>) {
///     let a = w.write(1);
///     let b = w.write(2);
///     drop((a, b));
/// }
/// ```
pub mod c20_write_consumes_writer_fail {}
/// ```
/// fn f(w: wit_bindgen::FutureWriter<u32>) {
///     let a = w.write(1);
///     drop(a);
/// }
/// ```
pub mod c20_write_consumes_writer_twin {}

/// C20 R20.1: a future's readable end is consumed by `into_future`.
/// ```compile_fail,E0382
/// use std::future::IntoFuture;
/// fn f(r: wit_bindgen::FutureReader<u32>) {
///     let a = r.into_future();
///     let b = r.into_future();
///     drop((a, b));
/// }
/// ```
pub mod c20_read_consumes_reader_fail {}
/// ```
/// use std::future::IntoFuture;
/// fn f(r: wit_bindgen::FutureReader<u32>) {
///     let a = r.into_future();
///     drop(a);
/// }
/// ```
pub mod c20_read_consumes_reader_twin {}

/// C20: the ends of a future cannot be duplicated.
/// ```compile_fail,E0599
/// fn f(w: wit_bindgen::FutureWriter<u32>) {
///     let c = w.clone();
///     drop((w, c));
/// }
/// ```
pub mod c20_writer_not_clone_fail {}
/// ```
/// fn f(w: wit_bindgen::FutureWriter<u32>) {
///     let c = &w;
///     let _ = c;
///     drop(w);
/// }
/// ```
pub mod c20_writer_not_clone_twin {}

/// C07 R7.5: owning handle wrappers cannot be duplicated (a clone would double-drop the handle).
/// ```compile_fail,E0599
/// fn f(r: wit_bindgen::StreamReader<u32>) {
///     let c = r.clone();
///     drop((r, c));
/// }
/// ```
pub mod c07_stream_reader_not_clone_fail {}
/// ```
/// fn f(r: wit_bindgen::StreamReader<u32>) {
///     let c = &r;
///     let _ = c;
///     drop(r);
/// }
/// ```
pub mod c07_stream_reader_not_clone_twin {}

/// ```compile_fail,E0599
/// fn f(r: wit_bindgen::FutureReader<u32>) {
///     let c = r.clone();
///     drop((r, c));
/// }
/// ```
pub mod c07_future_reader_not_clone_fail {}
/// ```
/// fn f(r: wit_bindgen::FutureReader<u32>) {
///     let c = &r;
///     let _ = c;
///     drop(r);
/// }
/// ```
pub mod c07_future_reader_not_clone_twin {}

/// ```compile_fail,E0599
/// fn f(r: wit_bindgen::StreamWriter<u32>) {
///     let c = r.clone();
///     drop((r, c));
/// }
/// ```
pub mod c07_stream_writer_not_clone_fail {}
/// ```
/// fn f(r: wit_bindgen::StreamWriter<u32>) {
///     let c = &r;
///     let _ = c;
///     drop(r);
/// }
/// ```
pub mod c07_stream_writer_not_clone_twin {}

/// ```compile_fail,E0599
/// fn f(r: wit_bindgen::rt::async_support::ErrorContext) {
///     let c = r.clone();
///     drop((r, c));
/// }
/// ```
pub mod c07_error_context_not_clone_fail {}
/// ```
/// fn f(r: wit_bindgen::rt::async_support::ErrorContext) {
///     let c = &r;
///     let _ = c;
///     drop(r);
/// }
/// ```
pub mod c07_error_context_not_clone_twin {}

/// C24 R24.4: a scratch allocation guard cannot be duplicated (a clone would free twice).
/// ```compile_fail,E0599
/// fn f(c: wit_bindgen::rt::Cleanup) {
///     let d = c.clone();
///     drop((c, d));
/// }
/// ```
pub mod c24_cleanup_not_clone_fail {}
/// ```
/// fn f(c: wit_bindgen::rt::Cleanup) {
///     let d = &c;
///     let _ = d;
///     drop(c);
/// }
/// ```
pub mod c24_cleanup_not_clone_twin {}

/// C24: `Cleanup::forget` consumes the guard (it cannot be forgotten and then dropped).
/// ```compile_fail,E0382
/// fn f(c: wit_bindgen::rt::Cleanup) {
///     c.forget();
///     drop(c);
/// }
/// ```
pub mod c24_cleanup_forget_consumes_fail {}
/// ```
/// fn f(c: wit_bindgen::rt::Cleanup) {
///     c.forget();
/// }
/// ```
pub mod c24_cleanup_forget_consumes_twin {}

/// C08 R8.2: the cancel-on-drop guard is consumed by `forget`.
/// ```compile_fail,E0382
/// fn f(c: wit_bindgen::rt::async_support::TaskCancelOnDrop) {
///     c.forget();
///     drop(c);
/// }
/// ```
pub mod c08_task_cancel_forget_consumes_fail {}
/// ```
/// fn f(c: wit_bindgen::rt::async_support::TaskCancelOnDrop) {
///     c.forget();
/// }
/// ```
pub mod c08_task_cancel_forget_consumes_twin {}
