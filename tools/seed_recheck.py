#!/usr/bin/env python3
"""Re-run the registered checks against every stored seeded change (no cargo test / demo: those were confirmed when the
seed was stored) and refresh `detected_by` in its meta.json.  A seed that is detected now but was not when it was
stored gets a `history` note.  usage: seed_recheck.py [seed-id ...] [--checks C01,C02] [--own] [--shard i/n]
  --own   : only the seed's own property and the checks recorded as detecting it (cheap refresh after rule changes)"""
import glob, json, os, subprocess, sys, shutil
VERIF = os.path.dirname(os.path.dirname(os.path.abspath(__file__)))
def sh(cmd, **kw): return subprocess.run(cmd, capture_output=True, text=True, **kw)
def main():
    args = sys.argv[1:]
    only = None
    if "--checks" in args:
        only = args[args.index("--checks") + 1].split(","); del args[args.index("--checks"):args.index("--checks") + 2]
    own = "--own" in args
    if own:
        args.remove("--own")
    shard = None
    if "--shard" in args:
        i, n = args[args.index("--shard") + 1].split("/"); shard = (int(i), int(n)); del args[args.index("--shard"):args.index("--shard") + 2]
    seeds = args or sorted(os.path.basename(os.path.dirname(p)) for p in glob.glob(os.path.join(VERIF, "seeded", "*", "meta.json")))
    accepted = open(os.path.join(VERIF, "rules", "ACCEPTED")).read().split()
    if shard:
        seeds = [x for k, x in enumerate(seeds) if k % shard[1] == shard[0]]
    wt = "/tmp/vseed_recheck" + (str(shard[0]) if shard else "")
    sh(["git", "-C", "/repo", "worktree", "remove", "--force", wt]); shutil.rmtree(wt, ignore_errors=True)
    sh(["git", "-C", "/repo", "worktree", "add", "-q", "--detach", wt])
    try:
        for sid in seeds:
            d = os.path.join(VERIF, "seeded", sid)
            meta = json.load(open(os.path.join(d, "meta.json")))
            sh(["git", "-C", wt, "checkout", "-q", "--", "."]); sh(["git", "-C", wt, "clean", "-fdq"])
            a = sh(["git", "-C", wt, "apply", "--whitespace=nowarn", os.path.join(d, "patch.diff")])
            if a.returncode != 0:
                print(sid, "PATCH NO LONGER APPLIES to /repo HEAD:", a.stderr[-200:]); continue
            pid = meta.get("breaks_property") or meta.get("property")
            todo = only or ([pid] if pid in accepted else []) + [c for c in accepted if c != pid]
            if own:
                todo = ([pid] if pid in accepted else []) + [c for c in meta.get("detected_by", []) if c != pid and c in accepted]
            det = {}
            for c in todo:
                r = sh([sys.executable, os.path.join(VERIF, "check.py"), c, "--tier", "thorough"], env=dict(os.environ, VERIF_REPO=wt))
                fired = r.returncode == 1 and ("VIOLATION property=" + c) in r.stdout
                det[c] = {"fired": fired, "fails": [l for l in r.stdout.splitlines() if l.startswith("[FAIL]")][:4]}
            now = sorted(c for c, v in det.items() if v["fired"])
            before = meta.get("detected_by", [])
            if only:
                now = sorted(set(before) - set(only) | set(now))
            if own:
                meta["detected_by_note"] = "refreshed with the seed's own check and the previously detecting checks only"
            if set(now) - set(before) and not before:
                meta["history"] = (meta.get("history", "") + f" Missed when first confirmed; detected by {', '.join(now)} after the "
                                   "checks were strengthened (see DESIGN.md §11).").strip()
            meta["detected_by"] = now
            meta.setdefault("confirmed", {}).setdefault("checks", {}).update(det)
            json.dump(meta, open(os.path.join(d, "meta.json"), "w"), indent=1)
            print(sid, "detected by", now)
            for c in now:
                for l in det.get(c, {}).get("fails", [])[:2]:
                    print("    ", l[:200])
    finally:
        sh(["git", "-C", "/repo", "worktree", "remove", "--force", wt]); sh(["git", "-C", "/repo", "worktree", "prune"])
if __name__ == "__main__":
    main()
